"""C02 — readout clock and per-step bucket lifecycle.

  valid(times, start) := 1-D, at least one time, times[0] != 0, start < times[0], strictly increasing   [statement]
  ReadoutProperties.__init__  : returns => valid ; steps[i] == times[i] - (times[i-1] if i > 0 else start)
  exposure.run_pipeline       : loop invariant over a SYMBOLIC number of readouts; at the call of
      processor.run_pipeline in step i (generic i), for arbitrary prior detector contents and both modes:
        entry(i): time == times[i], time_step == steps[i], absolute_time == start + times[i], pipeline_count == i,
                  is_first == (i == 0), is_last == (i == n-1), scene fresh, photon/signal/image empty, charge all zero
                  with no clusters, pixel all zero (destructive, or i == 0) / exactly the pixel content left by step i-1
      exactly n calls, in index order; an invalid schedule raises before any model runs; run_pipeline itself raises
      only when the schedule is invalid or a model raises.
"""
from __future__ import annotations

from pyvc import arrays
from .common import *  # noqa: F401,F403
from .trace import *  # noqa: F401,F403
from . import detmodel as D

RP = "pyxel/detectors/readout_properties.py"
EX = "pyxel/exposure/exposure.py"
RO = "pyxel/exposure/readout.py"
TRUSTED = ["models may change the buckets arbitrarily but not the readout clock (frame of the model contract)",
           "xarray result assembly is a boundary (recorded, not interpreted)", "np.diff / np.concatenate / np.all pointwise contracts",
           "real arithmetic for the schedule (one subtraction per step)"]
N = z3.Int("n_times")
T = z3.Function("times", z3.IntSort(), z3.RealSort())
START = z3.Real("start_time")
GI = z3.Int("g_i")


def times_array(ex, ndim=1):
    if ndim == 1:
        return ex.st.alloc(HArr((N,), VDtype("float64"), lambda ix: VFloat(T(z_int(ix[0])))))
    f2 = z3.Function("times2d", z3.IntSort(), z3.IntSort(), z3.RealSort())
    return ex.st.alloc(HArr((N, z3.Int("n2")), VDtype("float64"), lambda ix: VFloat(f2(z_int(ix[0]), z_int(ix[1])))))


def steps_spec(i):
    return z3.If(i == 0, T(0) - START, T(i) - T(i - 1))


def clock_replay(desc="clock and bucket lifecycle at every step"):
    return lambda w: {"code": f"""
import numpy as np, verif_probes as VP
from pyxel.pipelines import DetectionPipeline, ModelFunction, Processor
from pyxel.exposure import Readout, run_pipeline
VIOLATED, DETAIL = False, ''
def mk_readout(times, start, nd, built):
    if built == 'constructor':
        return Readout(times=times, start_time=start, non_destructive=nd)
    r = Readout()                      # a readout configured AFTER its construction (what Processor.set does for observation.readout.*)
    r.times = times; r.start_time = start; r.non_destructive = nd
    return r
for non_destructive, built in ((False, 'constructor'), (True, 'constructor'), (True, 'setters'), (False, 'setters')):
    for times, start in (([1.0, 2.5, 4.0, 7.0], 0.5), ([0.5], 0.0), ([2.0, 3.0], -1.0), ([2.0], 0.5), ([10.0], 9.0)):
        VP.LOG.clear()
        det = VP.detector(adc_bit_resolution=16, adc_voltage_range=(0.0, 10.0))
        det.photon.array = np.full((3, 4), 9.0); det.pixel.array = np.full((3, 4), 5.0); det.signal.array = np.full((3, 4), 1.0)
        first = ModelFunction(func='verif_probes.probe', name='first', arguments={{}})
        last = ModelFunction(func='verif_probes.writer', name='last', arguments={{'pixel_add': 2.0, 'signal': 1.0, 'photon': 3.0}})
        proc = Processor(detector=det, pipeline=DetectionPipeline(photon_collection=[first], charge_collection=[last]))
        try:     # history: an EARLIER run of the same detector with the same times but another start time and mode
            run_pipeline(processor=proc, readout=Readout(times=times, start_time=start - 0.25, non_destructive=non_destructive), outputs=None, debug=False, with_inherited_coords=False)
        except Exception:
            pass
        VP.LOG.clear()
        try:
            run_pipeline(processor=proc, readout=mk_readout(times, start, non_destructive, built), outputs=None, debug=False, with_inherited_coords=False)
        except Exception as e:
            VIOLATED, DETAIL = True, f'times={{times}} start={{start}} nd={{non_destructive}} ({{built}}): run raised {{e!r}}'
            break
        firsts = [x for x in VP.LOG if x['name'] == 'first']
        if len(firsts) != len(times):
            VIOLATED, DETAIL = True, f'{{len(firsts)}} steps for {{len(times)}} readout times'; break
        for i, x in enumerate(firsts):
            c, b = x['clock'], x['buckets']
            exp_step = times[i] - (times[i - 1] if i else start)
            exp_pix = 2.0 * i if non_destructive else 0.0
            ok = (c['time'] == times[i] and abs(c['time_step'] - exp_step) < 1e-12 and abs(c['absolute_time'] - (start + times[i])) < 1e-12 and c['pipeline_count'] == i
                  and c['is_first_readout'] == (i == 0) and c['is_last_readout'] == (i == len(times) - 1)
                  and b['photon'] is None and b['signal'] is None and b['image'] is None and float(np.abs(b['charge']).max()) == 0.0
                  and np.allclose(b['pixel'], exp_pix))
            if not ok:
                VIOLATED, DETAIL = True, f'times={{times}} start={{start}} non_destructive={{non_destructive}} (readout built by {{built}}) step {{i}}: clock={{c}} pixel={{b["pixel"].ravel()[:2]}} photon={{None if b["photon"] is None else "set"}}'
                break
        if VIOLATED: break
    if VIOLATED: break
""", "expect": desc}


# ---- ReadoutProperties.__init__ -----------------------------------------------------------------------
@unit("C02", "rp.ctor")
def rp_ctor(u: Unit):
    fi = u.fn(f"{RP}::ReadoutProperties.__init__")
    u.fn(f"{RO}::calculate_steps")
    ci = u.cls(f"{RP}::ReadoutProperties")
    cfg = Cfg("real")
    rp_replay = lambda w: {"code": """
import numpy as np
from pyxel.detectors import ReadoutProperties
VIOLATED, DETAIL = False, ''
cases = [([1, 2, 2], 0.0), ([0.0, 1.0], -1.0), ([1.0, 2.0], 1.0), ([1.0, 2.0], 3.0), ([3.0, 2.0, 4.0], 0.0), ([[1.0, 2.0]], 0.0), ([1.0, 2.0, 4.0], 0.5), ([-2.0, -1.0], -3.0),
         ([1e-9, 3e-9, 4e-9], 0.0), ([2e-9, 3e-9, 5e-9, 6e-9, 9e-9], 1e-9), ([1.0, 2.000005, 3.000005, 4.000005], 0.0), ([1e6, 1e6 + 1, 1e6 + 3], 0.0),
         ([2.0], 0.5), ([5.0], -1.0), ([10.0], 9.0), ([1.0], 0.0)]
for times, start in cases:
    t = np.array(times, dtype=float)
    valid = t.ndim == 1 and t.size >= 1 and t[0] != 0 and start < t[0] and bool(np.all(np.diff(t) > 0))
    try:
        rp = ReadoutProperties(times=times, start_time=start)
    except Exception as e:
        if valid: VIOLATED, DETAIL = True, f'valid schedule {times}, start {start} rejected: {e!r}'
        continue
    exp = np.diff(np.concatenate(([start], t)))
    if not valid or not np.array_equal(rp.steps, exp) or rp.num_steps != len(t):
        VIOLATED, DETAIL = True, f'schedule {times}, start {start}: accepted={True}, valid={valid}, steps={rp.steps.tolist()} expected {exp.tolist()}'
""", "expect": "invalid schedules rejected; steps are the differences with the start time prepended"}
    for ndim in (1, 2):
        def setup(ex, ndim=ndim):
            ex.st.assume(z3.And(N >= 0, GI >= 0))
            ex.st.ghost["generic"] = [(GI,)]
            obj = ex.st.alloc(HObj(ci, {}))
            ex.self_ref = obj
            return [obj], {"times": times_array(ex, ndim), "start_time": VFloat(START), "non_destructive": VBool(z3.Bool("non_destructive"))}
        ps = u.paths(fi, setup, cfg, label=f"ReadoutProperties.__init__[{ndim}D]")
        w = {"n": N, "t0": T(0), "t1": T(1), "start": START, "g_i": GI}
        for p in ps:
            if p.kind != "return":
                continue
            if ndim == 2:
                u.oblige(p, "rp.reject[not 1-D]", False, w, rp_replay)
                continue
            f = p.st.cell(p.ex.self_ref).fields
            u.oblige(p, "rp.reject[accepted implies valid]", z3.And(N >= 1, T(0) != 0, START < T(0), z3.Implies(GI < N - 1, T(GI) < T(GI + 1))), w, rp_replay,
                     info={"small": [N, GI]})
            tc, sc = p.st.cell(f["_times"]), p.st.cell(f["_steps"])
            u.oblige(p, "rp.times_stored", z3.And(z_int(tc.shape[0]) == N, z3.Implies(GI < N, to_real(tc.elem((GI,))) == T(GI))), w, rp_replay)
            u.oblige(p, "steps.diff", z3.And(z_int(sc.shape[0]) == N, z3.Implies(GI < N, to_real(sc.elem((GI,))) == steps_spec(GI))), w, rp_replay, info={"small": [N, GI]})
            u.oblige(p, "rp.fields", z3.And(z_int(int_of(f["_num_steps"])) == N, to_real(f["_start_time"]) == START, to_real(f["_time"]) == 0,
                                           z_bool(f["_non_destructive"].v) == z3.Bool("non_destructive")), w, rp_replay)
        if ndim == 1:
            u.cover("rp.cover", ps, lambda p: p.kind == "return")
            u.cover("rp.cover_reject", ps, lambda p: p.kind == "raise")


# ---- the hub: exposure.run_pipeline --------------------------------------------------------------------
CALLS = "CALLS"


def processor_run_contract(u, may_raise=True):
    """Contract of Processor.run_pipeline as seen from the exposure loop: it is where the models observe the detector.
    At the call the entry predicate of the statement is an obligation; afterwards the buckets hold whatever the models
    left (arbitrary valid content), the clock is untouched."""
    fi = u.world.function(f"{PR}::Processor.run_pipeline")

    def apply(ex, args, kwargs, fr):
        st = ex.st
        k = st.ghost["LOOP_K"]
        parts = ex.det_parts
        det = st.cell(parts["det"])
        rp = st.cell(_rp_ref(det)).fields
        fr0 = Frame(None, None)
        g = D.GEN
        nd = z_bool(rp["_non_destructive"].v)
        name = "run.entry"
        clock = {
            "time": to_real(rp["_time"]) == T(k),
            "time_step": to_real(rp["_time_step"]) == steps_spec(k),
            "absolute_time": to_real(ex.getattr(parts["det"], "absolute_time", fr0)) == START + T(k),
            "pipeline_count": z_int(int_of(rp["_pipeline_count"])) == k,
            "is_first": zb(ex.truth(ex.getattr(parts["det"], "is_first_readout", fr0))) == (k == 0),
            "is_last": zb(ex.truth(ex.getattr(parts["det"], "is_last_readout", fr0))) == (k == N - 1),
        }
        for lbl, f in clock.items():
            st.oblige(f"{name}.clock[{lbl}]", f, {"witness": st.ghost.get("WITNESS"), "replay": clock_replay()}, assume_after=False)
        for b in ("photon", "signal", "image"):
            st.oblige(f"{name}.empty[{b}]", zb(D.is_empty_bucket(st, parts[b])), {"replay": clock_replay()}, assume_after=False)
        st.oblige(f"{name}.scene_fresh", bool(det.fields["_scene"] is not st.ghost["SCENE_AT_HEAD"]), {"replay": clock_replay()}, assume_after=False)
        ch = st.cell(parts["charge"]).fields
        st.oblige(f"{name}.charge_zero", z3.And(D.frame_elem(st, ch["_array"]) == 0, ch["_frame"].info["nrows"] == 0), {"replay": clock_replay()}, assume_after=False)
        pix = D.bucket_array(st, parts["pixel"])
        pe = D.frame_elem(st, pix)
        pix_present = zb(z_not(D.is_empty_bucket(st, parts["pixel"])))
        head = st.ghost["PIXEL_AT_HEAD"]
        st.oblige(f"{name}.pixel[destructive or first]", z3.Implies(z3.Or(z3.Not(nd), k == 0), z3.And(pix_present, pe == 0)), {"replay": clock_replay()}, assume_after=False)
        st.oblige(f"{name}.pixel[non-destructive keeps previous]", z3.Implies(z3.And(nd, k > 0), z3.And(pix_present, pe == head)), {"replay": clock_replay()}, assume_after=False)
        # effect: one more pipeline run; buckets arbitrary afterwards
        st.ghost[CALLS] = st.ghost[CALLS] + 1
        st.ghost["CALL_INDEX"] = k
        havoc_buckets(ex)
        dbg = kwargs.get("debug", args[1] if len(args) > 1 else VBool(False))
        if st.branch(ex.truth(dbg)):
            # debug capture (ModelGroup.run) leaves the intermediate tree on the detector once a model has run
            det.fields["_intermediate"] = VOpaque("xr", st.fresh_int("intermediate"), {"label": "intermediate", "truthy": True})
            st.assumptions.add("debug mode: at least one enabled model runs per step (detector.intermediate exists afterwards)")
        if may_raise and st.choose([True, True]) == 1:
            e = VSym("exc", st.fresh_int("model_exc"))
            st.ghost["MODEL_EXC"] = e
            raise PyExc(e)
        return NONE
    return Contract(fi.qualname, apply, "models observe entry(i); buckets arbitrary afterwards; may raise a model's exception")


def havoc_buckets(ex):
    st, parts = ex.st, ex.det_parts
    st.cell(parts["photon"]).fields["_array"] = D.maybe_frame(ex, "photon")
    st.cell(parts["signal"]).fields["_array"] = D.maybe_frame(ex, "signal")
    st.cell(parts["image"]).fields["_array"] = D.maybe_frame(ex, "image", "uint16")
    st.cell(parts["pixel"]).fields["_array"] = D.sym_frame(ex, "pixel")
    ch = st.cell(parts["charge"]).fields
    ch["_array"] = D.sym_frame(ex, "charge")
    rows = st.fresh_int("charge_rows")
    st.assume(rows >= 0)
    ch["_frame"] = D.df_obj(ex, rows)
    ch["nextid"] = VInt(st.fresh_int("nextid"))
    st.cell(parts["det"]).fields["_scene"] = VOpaque("xr", st.fresh_int("scene"), {"label": "scene(models)", "truthy": True})


def _rp_ref(det):
    """The detector's ReadoutProperties object (an earlier run's object kept on this path shows up as an optional)."""
    v = det.fields["_readout_properties"]
    return v.val if isinstance(v, VMaybe) else v


def exposure_loop_spec():
    def rp_fields(ex):
        det = ex.st.cell(ex.det_parts["det"])
        return ex.st.cell(_rp_ref(det)).fields

    def inv(ex, fr, k):
        st = ex.st
        f = rp_fields(ex)
        tc, sc = st.cell(f["_times"]), st.cell(f["_steps"])
        pix = D.bucket_array(st, ex.det_parts["pixel"])
        out = {
            "calls": st.ghost[CALLS] == k,
            "schedule_unchanged": z3.And(z_int(tc.shape[0]) == N, z_int(sc.shape[0]) == N, z_int(int_of(f["_num_steps"])) == N, to_real(f["_start_time"]) == START,
                                         z3.Implies(z3.And(GI >= 0, GI < N), z3.And(to_real(tc.elem((GI,))) == T(GI), to_real(sc.elem((GI,))) == steps_spec(GI))),
                                         z3.Implies(z3.And(k >= 0, k < N), z3.And(to_real(tc.elem((k,))) == T(k), to_real(sc.elem((k,))) == steps_spec(k))),
                                         z_bool(f["_non_destructive"].v) == z3.Bool("non_destructive")),
            "pixel_initially_zero": z3.Implies(k == 0, z3.And(zb(z_not(D.is_empty_bucket(st, ex.det_parts["pixel"]))), D.frame_elem(st, pix) == 0)),
            "pixel_present": zb(z_not(D.is_empty_bucket(st, ex.det_parts["pixel"]))),
        }
        return out

    def havoc(ex, fr, k):
        st = ex.st
        f = rp_fields(ex)
        f["_time"], f["_time_step"], f["_pipeline_count"] = VFloat(st.fresh_real("time")), VFloat(st.fresh_real("time_step")), VInt(st.fresh_int("pcount"))
        havoc_buckets(ex)
        st.ghost[CALLS] = st.fresh_int("calls")
        st.ghost["LOOP_K"] = k
        st.cell(ex.det_parts["det"]).fields["_intermediate"] = VMaybe(z3.And(z3.Bool("debug"), k > 0), VOpaque(
            "xr", st.fresh_int("intermediate"), {"label": "intermediate", "truthy": True}))
        st.ghost["SCENE_AT_HEAD"] = st.cell(ex.det_parts["det"]).fields["_scene"]
        st.ghost["PIXEL_AT_HEAD"] = D.frame_elem(st, D.bucket_array(st, ex.det_parts["pixel"]))
        fr.locals["buckets_data_tree"] = VOpaque("xr", st.fresh_int("xr"), {"label": "buckets_data_tree"})

    def modifies(ex, fr):
        p = ex.det_parts
        det = ex.st.cell(p["det"])
        return [p[b].addr for b in ("photon", "pixel", "signal", "image", "charge", "det")] + [_rp_ref(det).addr]
    return LoopSpec("(i, (time, step)) in enumerate(zip(detector.readout_properties.times, detector.readout_properties.steps, strict=False))",
                    inv, havoc=havoc, modifies=modifies, name="run.loop")


def exposure_setup(u, ex, valid_schedule=True, prior="arbitrary"):
    st = ex.st
    st.assume(z3.And(N >= 0, GI >= 0))
    if valid_schedule:
        k = z3.Int("any_k")
        st.assume(z3.And(N >= 1, T(0) != 0, START < T(0)))
        st.assume(z3.ForAll([k], z3.Implies(z3.And(k >= 0, k < N - 1), T(k) < T(k + 1))))
    det = D.mk_detector(ex, u, prior=prior)
    if prior == "arbitrary":
        # history: the detector may still hold the ReadoutProperties of an EARLIER run — any valid schedule, possibly with the
        # same times as the new one but another start time / mode (a well-formed object: its steps are its own differences)
        OT, OSTART, ON = z3.Function("old_times", z3.IntSort(), z3.RealSort()), z3.Real("old_start_time"), z3.Int("n_old_times")
        osteps = lambda i: z3.If(i == 0, OT(0) - OSTART, OT(i) - OT(i - 1))
        st.assume(z3.And(ON >= 1, OT(0) != 0, OSTART < OT(0)))
        rpci = u.cls(f"{RP}::ReadoutProperties")
        old = st.alloc(HObj(rpci, {
            "_times": st.alloc(HArr((ON,), VDtype("float64"), lambda ix: VFloat(OT(z_int(ix[0]))))),
            "_steps": st.alloc(HArr((ON,), VDtype("float64"), lambda ix: VFloat(osteps(z_int(ix[0]))))),
            "_num_steps": VInt(ON), "_start_time": VFloat(OSTART), "_end_time": VFloat(OT(ON - 1)), "_non_destructive": VBool(z3.Bool("old_non_destructive")),
            "_times_linear": VBool(z3.Bool("old_times_linear")), "_time": VFloat(z3.Real("old_time")), "_time_step": VFloat(z3.Real("old_time_step")),
            "_read_out": VBool(True), "_pipeline_count": VInt(z3.Int("old_pipeline_count"))}))
        st.cell(det).fields["_readout_properties"] = VMaybe(z3.Bool("ran_before"), old)
    st.ghost["generic"].append((GI,))
    st.ghost[CALLS] = z3.IntVal(0)
    st.ghost["SCENE_AT_HEAD"] = st.cell(det).fields["_scene"]
    st.ghost["PIXEL_AT_HEAD"] = z3.RealVal(0)
    pci = u.cls(f"{PR}::Processor")
    proc = st.alloc(HObj(pci, {"detector": det, "pipeline": VOpaque("xr", st.fresh_int("pipeline"), {"label": "pipeline"}), "_log": VOpaque("logger")}))
    rci = u.cls(f"{RO}::Readout")
    readout = st.alloc(HObj(rci, {"_times": times_array(ex), "_start_time": VFloat(START), "_non_destructive": VBool(z3.Bool("non_destructive")),
                                  "_time_domain_simulation": VBool(z3.Bool("time_domain_flag"))}))
    return [], {"processor": proc, "readout": readout, "outputs": NONE, "debug": VBool(z3.Bool("debug")),
                "with_inherited_coords": VBool(z3.Bool("with_inherited_coords")), "progressbar": VBool(False), "pipeline_seed": NONE}


def exposure_cfg(u, may_raise=True):
    cfg = Cfg("real")
    D.install(cfg)
    fi = u.fn(f"{EX}::run_pipeline")
    c = processor_run_contract(u, may_raise)
    cfg.contracts[c.qualname] = c
    cfg.loops[(fi.qualname, 0)] = exposure_loop_spec()
    cfg.contracts[f"{EX}::_extract_datatree_2d"] = Contract(f"{EX}::_extract_datatree_2d", lambda ex, args, kwargs, fr: VOpaque(
        "xr", ex.st.fresh_int("xr"), {"label": "partial_datatree"}), "per-step result extraction (C03); boundary here")
    return cfg, fi


@unit("C02", "run.entry")
def run_entry(u: Unit):
    cfg, fi = exposure_cfg(u, may_raise=True)
    for name in ("Detector.set_readout", "Detector.empty"):
        u.fn(f"{D.DET}::{name}")
    for q in ("photon.py::Photon.empty", "pixel.py::Pixel.empty", "array.py::ArrayBase.empty", "charge.py::Charge.empty"):
        u.fn(D.DS + q)
    u.fn(f"{RP}::ReadoutProperties.__init__")
    u.internal_replay, u.internal_witness = clock_replay(), {}
    ps = u.paths(fi, lambda ex: exposure_setup(u, ex, True), cfg, max_paths=400, label="exposure.run_pipeline[valid schedule]")
    for p in ps:
        if p.kind == "return":
            u.oblige(p, "run.once_per_time", p.st.ghost[CALLS] == N, {}, clock_replay())
        else:
            e = p.st.ghost.get("MODEL_EXC")
            ok = isinstance(p.value, VSym) and e is not None and z3.eq(p.value.t, e.t)
            u.oblige(p, "run.raises_only_from_models", bool(ok), {"exception": p.exc_name() or str(p.value)},
                     lambda w: {"code": """
import numpy as np, verif_probes as VP
from pyxel.pipelines import DetectionPipeline, ModelFunction, Processor
from pyxel.exposure import Readout, run_pipeline
det = VP.detector()
proc = Processor(detector=det, pipeline=DetectionPipeline(photon_collection=[ModelFunction(func='verif_probes.probe', name='p', arguments={})]))
try:
    run_pipeline(processor=proc, readout=Readout(times=[1.0, 2.0, 3.0]), outputs=None, debug=False, with_inherited_coords=False)
    VIOLATED, DETAIL = False, 'three readouts without an image model ran fine'
except Exception as e:
    VIOLATED, DETAIL = True, 'a valid 3-readout exposure whose models never fail raised ' + repr(e)[:200]
""", "expect": "exposure raises only for invalid schedules or failing models"})
    u.cover("run.cover", ps, lambda p: p.kind == "return")


@unit("C02", "run.validates_before_models")
def run_validates(u: Unit):
    """Arbitrary (possibly invalid) schedule: either it is valid or the call raises with zero pipeline runs."""
    cfg, fi = exposure_cfg(u, may_raise=False)
    u.internal_replay, u.internal_witness = clock_replay(), {}
    ps = u.paths(fi, lambda ex: exposure_setup(u, ex, False), cfg, max_paths=400, label="exposure.run_pipeline[any schedule]")
    w = {"n": N, "t0": T(0), "start": START}
    for p in ps:
        valid = z3.And(N >= 1, T(0) != 0, START < T(0), z3.Implies(z3.And(GI >= 0, GI < N - 1), T(GI) < T(GI + 1)))
        called = p.st.ghost[CALLS] if not isinstance(p.st.ghost[CALLS], int) else z3.IntVal(p.st.ghost[CALLS])
        u.oblige(p, "run.validates_before_models", z3.Or(valid, z3.And(zb(p.kind == "raise"), called == 0)), w, clock_replay())


# ---- Readout (the user's schedule object): constructor and setters -------------------------------------------------------
READOUT_REPLAY = lambda w: {"code": """
import numpy as np
from pyxel.exposure import Readout
VIOLATED, DETAIL = False, ''
cases = [([1, 2, 2], 0.0), ([0.0, 1.0], -1.0), ([1.0, 2.0], 1.0), ([1.0, 2.0], 3.0), ([3.0, 2.0, 4.0], 0.0), ([1.0, 2.0, 4.0], 0.5), ([-2.0, -1.0], -3.0), ([1e-9, 3e-9, 4e-9], 0.0),
         ([2.0], 0.5), ([5.0], -1.0), ([10.0], 9.0), ([1.0], 0.0)]          # a single readout, with and without a shifted start
for times, start in cases:
    t = np.array(times, dtype=float)
    valid = t[0] != 0 and start < t[0] and bool(np.all(np.diff(t) > 0))
    try:
        r = Readout(times=times, start_time=start)
    except Exception as e:
        if valid: VIOLATED, DETAIL = True, f'valid schedule {times}, start {start} rejected: {e!r}'
        continue
    exp = np.diff(np.concatenate(([start], t)))
    if not valid or not np.array_equal(r.steps, exp) or not np.array_equal(r.times, t):
        VIOLATED, DETAIL = True, f'Readout(times={times}, start_time={start}): accepted, valid={valid}, steps={r.steps.tolist()} expected {exp.tolist()}'
for start in (0.5, 1.0, 2.0):
    r = Readout(times=[1.0, 2.0, 4.0])
    try:
        r.start_time = start
        if not start < 1.0 or not np.array_equal(r.steps, np.diff([start, 1.0, 2.0, 4.0])):
            VIOLATED, DETAIL = True, f'start_time = {start} accepted; steps {r.steps.tolist()}'
    except ValueError:
        if start < 1.0: VIOLATED, DETAIL = True, f'valid start_time {start} refused'
""", "expect": "Readout accepts exactly the valid schedules and keeps steps = differences with the start time prepended"}


@unit("C02", "readout.ctor")
def readout_ctor(u: Unit):
    """Readout.__init__ / start_time setter on a schedule given as a list of numbers of symbolic length: acceptance implies
    validity (first time non-zero, later than the start, strictly increasing) and the stored steps are the differences."""
    fi = u.fn(f"{RO}::Readout.__init__")
    u.fn(f"{RO}::Readout._set_steps")
    ci = u.cls(f"{RO}::Readout")
    cfg = Cfg("real")
    cfg.contracts["pyxel/evaluator.py::eval_range"] = Contract("pyxel/evaluator.py::eval_range", lambda ex, args, kwargs, fr: args[0], "a list of numbers denotes itself (C12 / C05 cover textual ranges)")

    def setup(ex):
        ex.st.assume(z3.And(N >= 1, GI >= 0))
        ex.st.ghost["generic"] = [(GI,)]
        obj = ex.st.alloc(HObj(ci, {}))
        ex.self_ref = obj
        times = VSeq(N, lambda i: VFloat(T(i)), None, "list")
        return [obj], {"times": times, "times_from_file": NONE, "start_time": VFloat(START), "non_destructive": VBool(z3.Bool("non_destructive"))}
    ps = u.paths(fi, setup, cfg, label="Readout.__init__[list]")
    w = {"n": N, "t0": T(0), "t1": T(1), "start": START, "g_i": GI}
    for p in ps:
        if p.kind != "return":
            continue
        f = p.st.cell(p.ex.self_ref).fields
        u.oblige(p, "readout.reject[accepted implies valid]", z3.And(T(0) != 0, START < T(0), z3.Implies(GI < N - 1, T(GI) < T(GI + 1))), w, READOUT_REPLAY, info={"small": [N, GI]})
        tc, sc = p.st.cell(f["_times"]), p.st.cell(f["_steps"])
        u.oblige(p, "readout.times_stored", z3.And(z_int(tc.shape[0]) == N, z3.Implies(GI < N, to_real(tc.elem((GI,))) == T(GI))), w, READOUT_REPLAY)
        u.oblige(p, "readout.steps.diff", z3.And(z_int(sc.shape[0]) == N, z3.Implies(GI < N, to_real(sc.elem((GI,))) == steps_spec(GI))), w, READOUT_REPLAY, info={"small": [N, GI]})
        u.oblige(p, "readout.fields", z3.And(to_real(f["_start_time"]) == START, z_bool(f["_non_destructive"].v) == z3.Bool("non_destructive")), w, READOUT_REPLAY)
    u.cover("readout.ctor.cover", ps, lambda p: p.kind == "return")
    # start_time setter
    fs = u.fn(f"{RO}::Readout.start_time.setter")
    NEW = z3.Real("new_start")

    def setup_s(ex):
        ex.st.assume(z3.And(N >= 1, GI >= 0))
        ex.st.ghost["generic"] = [(GI,)]
        obj = ex.st.alloc(HObj(ci, {"_times": times_array(ex), "_start_time": VFloat(START), "_steps": times_array(ex), "_num_steps": VInt(N), "_times_linear": VBool(True)}))
        ex.self_ref = obj
        return [obj, VFloat(NEW)], {}
    ps = u.paths(fs, setup_s, cfg, label="Readout.start_time.setter")
    for p in ps:
        f = p.st.cell(p.ex.self_ref).fields
        if p.kind != "return":
            u.oblige(p, "readout.start_time.atomic", to_real(f["_start_time"]) == START, {"new_start": NEW, "t0": T(0)}, READOUT_REPLAY)
            continue
        sc = p.st.cell(f["_steps"])
        u.oblige(p, "readout.start_time.valid", z3.And(NEW < T(0), to_real(f["_start_time"]) == NEW), {"new_start": NEW, "t0": T(0)}, READOUT_REPLAY)
        u.oblige(p, "readout.start_time.steps", z3.Implies(GI < N, to_real(sc.elem((GI,))) == z3.If(GI == 0, T(0) - NEW, T(GI) - T(GI - 1))), {"new_start": NEW}, READOUT_REPLAY, info={"small": [N, GI]})
    u.cover("readout.start_time.cover", ps, lambda p: p.kind == "return")


FILE_REPLAY = lambda w: {"code": """
import numpy as np, tempfile, os
from pyxel.exposure import Readout
d = tempfile.mkdtemp()
want = [1.0, 2.0, 4.0, 8.0]
files = {}
files['column.txt'] = os.path.join(d, 'column.txt'); open(files['column.txt'], 'w').write('\\n'.join(str(x) for x in want) + '\\n')
files['row.csv'] = os.path.join(d, 'row.csv'); open(files['row.csv'], 'w').write(','.join(str(x) for x in want) + '\\n')
for name, arr in (('vec.npy', np.array(want)), ('row.npy', np.array([want])), ('square.npy', np.array(want).reshape(2, 2)), ('col.npy', np.array(want).reshape(4, 1))):
    files[name] = os.path.join(d, name); np.save(files[name], arr)
VIOLATED, DETAIL = False, 'every time written in the file is a readout time, in file order'
for name, fn in files.items():
    try:
        r = Readout(times_from_file=fn, start_time=0.5)
    except Exception as e:
        continue          # a layout the loader refuses is not a wrong schedule
    if list(r.times) != want or not np.allclose(r.steps, np.diff([0.5] + want)):
        VIOLATED, DETAIL = True, f'{name} holds the times {want}; the readout built from it has times {list(r.times)}'; break
""", "expect": "Readout(times_from_file=...) takes every value of the table, in file order"}


@unit("C02", "readout.ctor.file")
def readout_ctor_file(u: Unit):
    """Readout.__init__ with times_from_file: the schedule is EVERY cell of the loaded table in row-major (file) order — tables of one
    column, one row or several columns (column count 1..3, symbolic row count); the loader (load_table: C20) is the boundary."""
    fi = u.fn(f"{RO}::Readout.__init__")
    ci = u.cls(f"{RO}::Readout")
    CELL = z3.Function("table_cell", z3.IntSort(), z3.IntSort(), z3.RealSort())
    TR = z3.Int("table_rows")
    for ncols in (1, 2, 3):
        cfg = Cfg("real")

        def load(ex, f, args, kwargs, fr):
            ex.hold["loaded"] = args[0] if args else kwargs.get("filename")
            return VOpaque("table", None, {})
        cfg.lib_overrides["pyxel.inputs.load_table"] = load
        cfg.contracts["pyxel/inputs/loader.py::load_table"] = Contract("pyxel/inputs/loader.py::load_table", lambda ex, args, kwargs, fr: load(ex, None, args, kwargs, fr), "C20: the table of the file")
        cfg.lib_overrides[("opaque_attr", "table")] = lambda ex, obj, name, fr: VLib("table.to_numpy", obj) if name == "to_numpy" else (_ for _ in ()).throw(Unsupported(f"DataFrame.{name} of the loaded table"))
        cfg.lib_overrides["table.to_numpy"] = lambda ex, f, args, kwargs, fr, ncols=ncols: ex.st.alloc(HArr((TR, ncols), VDtype("float64"), lambda ix: VFloat(CELL(z_int(ix[0]), z_int(ix[1])))))

        def setup(ex):
            ex.hold = {}
            ex.st.assume(z3.And(TR >= 1, GI >= 0))
            ex.st.ghost["generic"] = [(GI,)]
            obj = ex.st.alloc(HObj(ci, {}))
            ex.self_ref = obj
            ex.fn_arg = VStr(z3.String("times_file"))
            ex.st.assume(z3.Length(ex.fn_arg.v) > 0)
            return [obj], {"times": NONE, "times_from_file": ex.fn_arg, "start_time": VFloat(START), "non_destructive": VBool(z3.Bool("non_destructive"))}
        ps = u.paths(fi, setup, cfg, label=f"Readout.__init__[file, {ncols} columns]")
        for p in ps:
            if p.kind != "return":
                continue
            f = p.st.cell(p.ex.self_ref).fields
            tc = p.st.cell(f["_times"]) if p.ex.is_arr(f.get("_times")) else None
            ok = tc is not None and len(tc.shape) == 1 and p.ex.hold.get("loaded") is p.ex.fn_arg
            u.oblige(p, f"readout.file.every_cell_in_file_order[{ncols}]",
                     z3.And(z_int(tc.shape[0]) == TR * ncols, z3.Implies(GI < TR * ncols, to_real(tc.elem((GI,))) == CELL(GI / ncols, GI % ncols))) if ok else z3.BoolVal(False),
                     {"rows": TR, "g_i": GI}, FILE_REPLAY, info={"small": [TR, GI]})
        u.cover(f"readout.file.cover[{ncols}]", ps, lambda p: p.kind == "return")


STANDIN = {r"readout\.ctor\.file": FILE_REPLAY, r"^run\b|run\.": clock_replay()}


REPLACE_REPLAY = lambda w: {"code": """
import numpy as np
from pyxel.exposure import Readout
VIOLATED, DETAIL = False, 'replace() changes what it is asked to change and keeps the rest of the schedule'
for start, nd in ((0.0, False), (0.5, True), (-1.0, False)):
    r = Readout(times=[1.0, 2.0, 4.0], start_time=start, non_destructive=nd)
    for changes, want in ((dict(times=[3.0, 5.0]), ([3.0, 5.0], start, nd)), (dict(times=[2.0, 3.0], start_time=0.25), ([2.0, 3.0], 0.25, nd)),
                          (dict(times=[1.5, 2.5, 4.5], non_destructive=not nd), ([1.5, 2.5, 4.5], start, not nd))):
        n = r.replace(**changes)
        got = (list(n.times), n.start_time, n.non_destructive)
        if got != want or n is r or not np.array_equal(n.steps, np.diff([want[1]] + want[0])):
            VIOLATED, DETAIL = True, f'Readout(start_time={start}, non_destructive={nd}).replace({changes}) -> times {got[0]} start {got[1]} non_destructive {got[2]} steps {n.steps.tolist()}'; break
    if list(r.times) != [1.0, 2.0, 4.0] or r.start_time != start:
        VIOLATED, DETAIL = True, 'replace() changed the original readout'
""", "expect": "Readout.replace keeps times / start time / mode unless asked to change them"}


@unit("C02", "readout.replace")
def readout_replace(u: Unit):
    """Readout.replace(**changes) (used by the parallel observation when the readout times are swept): a NEW Readout built from the given
    changes and, for everything not changed, from this readout's own times, start time and mode (the constructor is unit readout.ctor)."""
    fi = u.fn(f"{RO}::Readout.replace")
    ci = u.cls(f"{RO}::Readout")
    # (without new times the constructor is handed the stored ndarray, whose truth value it tests: a ValueError for more than one readout
    # time on the unchanged tree — an API defect outside the listed properties; the sweep over readout times always passes `times`)
    for changed in (("times",), ("times", "start_time"), ("times", "non_destructive")):
        cfg = Cfg("real")
        q = f"{RO}::Readout.__init__"
        cfg.contracts[q] = Contract(q, lambda ex, args, kwargs, fr: (ex.hold.__setitem__("ctor", (list(args[1:]), dict(kwargs))), ex.hold.__setitem__("new", args[0]), NONE)[2], "readout.ctor")

        def setup(ex, changed=changed):
            ex.hold = {"times": VOpaque("xr", None, {"label": "own times"}), "new_times": VOpaque("xr", None, {"label": "new times"})}
            me = ex.st.alloc(HObj(ci, {"_times": ex.hold["times"], "_start_time": VFloat(START), "_non_destructive": VBool(z3.Bool("non_destructive"))}))
            ex.me = me
            kw = {}
            if "times" in changed:
                kw["times"] = ex.hold["new_times"]
            if "start_time" in changed:
                kw["start_time"] = VFloat(z3.Real("new_start"))
            if "non_destructive" in changed:
                kw["non_destructive"] = VBool(z3.Bool("new_mode"))
            return [me], kw
        tag = "+".join(changed) or "nothing"
        ps = u.paths(fi, setup, cfg, label=f"Readout.replace[{tag}]")
        for p in ps:
            if p.kind != "return":
                u.oblige(p, f"readout.replace.no_raise[{tag}]", False, {"exc": p.exc_name()}, REPLACE_REPLAY)
                continue
            a, k = p.ex.hold.get("ctor", ([], {}))
            names = ["times", "times_from_file", "start_time", "non_destructive"]
            for i, v in enumerate(a):
                k.setdefault(names[i], v)
            t_ok = k.get("times") is (p.ex.hold["new_times"] if "times" in changed else p.ex.hold["times"])
            st_v, nd_v = k.get("start_time"), k.get("non_destructive")
            goal = z3.And(zb(bool(t_ok and isinstance(st_v, VFloat) and isinstance(nd_v, VBool) and isinstance(p.value, VRef) and p.value.addr != p.ex.me.addr)),
                          (to_real(st_v) == (z3.Real("new_start") if "start_time" in changed else START)) if isinstance(st_v, VFloat) else z3.BoolVal(False),
                          (z_bool(nd_v.v) == (z3.Bool("new_mode") if "non_destructive" in changed else z3.Bool("non_destructive"))) if isinstance(nd_v, VBool) else z3.BoolVal(False))
            u.oblige(p, f"readout.replace.keeps_what_is_not_changed[{tag}]", goal, {"start": START, "new_start": z3.Real("new_start")}, REPLACE_REPLAY)
            f = p.st.cell(p.ex.me).fields
            u.oblige(p, f"readout.replace.original_untouched[{tag}]", z3.And(zb(f["_times"] is p.ex.hold["times"]), to_real(f["_start_time"]) == START), {}, REPLACE_REPLAY)
        u.cover(f"readout.replace.cover[{tag}]", ps, lambda p: p.kind == "return")


# ---- the per-step reset is the same for every detector type (overrides of Detector.empty included) --------------------------
EMPTY_REPLAY = lambda w: {"code": """
import numpy as np
from pyxel.detectors import CCD, CCDGeometry, CMOS, CMOSGeometry, MKID, MKIDGeometry, APD, APDGeometry, APDCharacteristics, Characteristics, Environment
def mk(kind):
    if kind == 'APD':
        return APD(geometry=APDGeometry(row=2, col=3, pixel_vert_size=1.0, pixel_horz_size=1.0), environment=Environment(), characteristics=APDCharacteristics(roic_gain=0.8, avalanche_gain=2.0, pixel_reset_voltage=12.0))
    cls, geo = {'CCD': (CCD, CCDGeometry), 'CMOS': (CMOS, CMOSGeometry), 'MKID': (MKID, MKIDGeometry)}[kind]
    return cls(geometry=geo(row=2, col=3, pixel_vert_size=1.0, pixel_horz_size=1.0), environment=Environment(), characteristics=Characteristics())
VIOLATED, DETAIL = False, 'every detector type keeps its pixel content over empty(reset=False) and clears everything else'
for kind in ('CCD', 'CMOS', 'MKID', 'APD'):
    for reset in (False, True):
        d = mk(kind)
        d.pixel.array = np.full((2, 3), 7.0); d.photon.array = np.full((2, 3), 1.0); d.signal.array = np.full((2, 3), 2.0); d.image.array = np.full((2, 3), 3, dtype=np.uint16)
        d.charge.add_charge_array(np.full((2, 3), 4.0))
        import xarray as xr
        d.scene.add_source(xr.Dataset({'x': ('ref', [1.0]), 'y': ('ref', [2.0]), 'weight': ('ref', [3.0]), 'flux': (('ref', 'wavelength'), [[4.0, 5.0]])}, coords={'ref': [0], 'wavelength': [500.0, 600.0]}))
        old_scene = d.scene
        d.empty(reset)
        if d.scene is old_scene or 'list' in d.scene.data or len(d.scene.data.children) != 0:
            VIOLATED, DETAIL = True, f'{kind}.empty(reset={reset}): the scene still holds the source added before (children {list(d.scene.data.children)})'
            break
        pix = np.asarray(d.pixel.array)
        ok = (np.array_equal(pix, np.zeros((2, 3))) if reset else np.array_equal(pix, np.full((2, 3), 7.0))) and d.photon._array is None and d.signal._array is None and d.image._array is None \
            and float(np.abs(d.charge.array).max()) == 0.0
        if not ok:
            VIOLATED, DETAIL = True, f'{kind}.empty(reset={reset}): pixel {pix.ravel()[:2]}, photon set {d.photon._array is not None}, charge max {np.abs(d.charge.array).max()}'
            break
    if VIOLATED: break
    # charge held as CLUSTERS and read through .array before the reset: nothing of it may survive into the next step
    d = mk(kind)
    z = np.zeros(2)
    d.charge.add_charge(particle_type='e', particles_per_cluster=np.array([5.0, 7.0]), init_energy=z, init_ver_position=np.array([0.5, 1.5]), init_hor_position=np.array([0.5, 2.5]),
                        init_z_position=z, init_ver_velocity=z, init_hor_velocity=z, init_z_velocity=z)
    seen = float(np.asarray(d.charge.array).sum())
    d.empty(True)
    d.charge.add_charge_array(np.full((2, 3), 1.0))
    after = float(np.asarray(d.charge.array).sum())
    if seen != 12.0 or after != 6.0 or len(d.charge.frame) not in (0, 6):
        VIOLATED, DETAIL = True, f'{kind}: 12 e- in clusters (read through .array: {seen}), empty(), then 1 e- per pixel added: the charge now sums to {after} (6 expected)'
        break
""", "expect": "empty(reset) clears photon, charge, signal, image and the scene; the pixel bucket is zeroed iff reset"}


@unit("C02", "empty.all_detector_types")
def empty_all_types(u: Unit):
    """Detector.empty(reset) as every detector class resolves it (CCD, CMOS, APD inherit it; MKID overrides it): photon, signal
    and image end empty, the charge array all zero without clusters, the scene is a fresh object; the pixel bucket is all zero
    when reset and UNCHANGED when not reset — the premise of the non-destructive lifecycle for all detector types."""
    kinds = {"CCD": "pyxel/detectors/ccd/ccd.py::CCD", "CMOS": "pyxel/detectors/cmos/cmos.py::CMOS", "MKID": "pyxel/detectors/mkid/mkid.py::MKID", "APD": "pyxel/detectors/apd/apd.py::APD"}
    for kind, qual in kinds.items():
        ci = u.cls(qual)
        cfg = Cfg("real")
        D.install(cfg)
        hold = {}

        def setup(ex, qual=qual, kind=kind):
            det = D.mk_detector(ex, u, prior="arbitrary", cls_qual=qual)
            st = ex.st
            if kind == "MKID":
                pci = u.world.cls("pyxel/data_structure/phase.py::Phase")
                phase = ex.instantiate(pci, [ex.det_parts["geo"]], {}, Frame(None, pci.module))
                st.cell(phase).fields["_array"] = D.maybe_frame(ex, "phase0")
                st.cell(det).fields["_phase"] = phase
            ex.hold = {"scene": st.cell(det).fields["_scene"], "pixel": D.frame_elem(st, D.bucket_array(st, ex.det_parts["pixel"])),
                       "pixel_present": zb(z_not(D.is_empty_bucket(st, ex.det_parts["pixel"])))}
            m = ex.find_method(ci, "empty")
            ex.hold["method"] = m.qualname
            return [det, VBool(z3.Bool("reset"))], {}
        fi = ex_method = None
        # resolve through the MRO of the real class
        from pyvc.engine import Ex as _Ex
        m = None
        for c in u.world.mro(ci):
            if "empty" in c.methods:
                m = c.methods["empty"]
                break
        if m is None:
            u.undecide(f"empty.resolves[{kind}]", qual, "no empty() found on the class")
            continue
        u.functions.setdefault(m.qualname, {"sha": m.sha, "file_sha": m.module.sha, "paths": 0, "obligations": 0, "role": "under contract"})
        ps = u.paths(m, setup, cfg, label=f"{kind}.empty")
        w = {"reset": z3.Bool("reset")}
        for p in ps:
            if p.kind != "return":
                u.oblige(p, f"empty.no_raise[{kind}]", False, dict(w, exc=p.exc_name()), EMPTY_REPLAY)
                continue
            st, parts = p.st, p.ex.det_parts
            for b in ("photon", "signal", "image"):
                u.oblige(p, f"empty.cleared[{kind}.{b}]", zb(D.is_empty_bucket(st, parts[b])), w, EMPTY_REPLAY)
            ch = st.cell(parts["charge"]).fields
            u.oblige(p, f"empty.cleared[{kind}.charge]", z3.And(D.frame_elem(st, ch["_array"]) == 0, ch["_frame"].info["nrows"] == 0), w, EMPTY_REPLAY)
            u.oblige(p, f"empty.scene_fresh[{kind}]", bool(st.cell(parts["det"]).fields["_scene"] is not p.ex.hold["scene"]), w, EMPTY_REPLAY)
            pe = D.frame_elem(st, D.bucket_array(st, parts["pixel"]))
            present = zb(z_not(D.is_empty_bucket(st, parts["pixel"])))
            u.oblige(p, f"empty.pixel_zero_when_reset[{kind}]", z3.Implies(z3.Bool("reset"), z3.And(present, pe == 0)), w, EMPTY_REPLAY)
            u.oblige(p, f"empty.pixel_kept_when_not_reset[{kind}]", z3.Implies(z3.Not(z3.Bool("reset")), z3.And(present == p.ex.hold["pixel_present"],
                                                                                                      z3.Implies(present, pe == p.ex.hold["pixel"]))), w, EMPTY_REPLAY)
        u.cover(f"empty.cover[{kind}]", ps, lambda p: p.kind == "return")


# ---- the pixel reset in IEEE arithmetic: zero afterwards WHATEVER the bucket held (NaN, infinities, any dtype a pixel bucket may hold) -------
PIXRESET_REPLAY = lambda w: {"code": """
import numpy as np, verif_probes as VP
VIOLATED, DETAIL = False, 'after a reset the pixel bucket is all zero, a float64 array of the detector shape, whatever it held'
for dt in (np.float64, np.float32, np.float16):
    for fill in (7.0, np.nan, np.inf, -np.inf, 6e4):
        det = VP.detector(rows=2, cols=3)
        a = np.full((2, 3), fill, dtype=dt); a[0, 0] = 1.0
        det.pixel.array = a
        det.empty(reset=True)
        out = np.asarray(det.pixel.array)
        if out.shape != (2, 3) or not np.array_equal(out, np.zeros((2, 3))):
            VIOLATED, DETAIL = True, f'pixel bucket of {np.dtype(dt).name} holding {fill}: after Detector.empty(reset=True) it holds {out.ravel()[:3]}'; break
    if VIOLATED: break
if not VIOLATED:
    det = VP.detector(rows=2, cols=3); ro = np.broadcast_to(np.array([[5.0]]), (2, 3))
    det.pixel._array = ro                      # a valid array the bucket cannot write into
    try:
        det.empty(reset=True)
    except Exception as e:
        VIOLATED, DETAIL = True, f'reset of a bucket holding a read-only array raises {type(e).__name__}'
    if not VIOLATED and not np.array_equal(np.asarray(det.pixel.array), np.zeros((2, 3))):
        VIOLATED, DETAIL = True, 'reset of a bucket holding a read-only array leaves the old frame'
""", "expect": "Detector.empty(reset=True) leaves an all-zero pixel bucket for every previous content"}


@unit("C02", "empty.pixel_reset_ieee")
def pixel_reset_ieee(u: Unit):
    """Pixel.empty in IEEE binary64 arithmetic (float mode `fp`): the bucket holds ARBITRARY binary64 values beforehand — NaN and the
    infinities included (a model may leave them) — or nothing; afterwards the element at an arbitrary position is +0.0 or -0.0 ... no:
    exactly zero (fpIsZero), the shape is the detector's and the type binary64. Real-number reasoning cannot see this (x * 0 = 0 there)."""
    fi = u.fn("pyxel/data_structure/pixel.py::Pixel.empty")
    pci = u.cls("pyxel/data_structure/pixel.py::Pixel")
    for pre in ("full", "empty"):
        cfg = Cfg("fp")
        F = z3.Function("pixel_before_fp", z3.IntSort(), z3.IntSort(), z3.Float64())

        def setup(ex, pre=pre):
            ex.st.assume(z3.And(D.ROWS > 0, D.COLS > 0))
            arr = ex.st.alloc(HArr((D.ROWS, D.COLS), VDtype("float64"), lambda ix: VFloat(F(z_int(ix[0]), z_int(ix[1]))))) if pre == "full" else NONE
            me = ex.st.alloc(HObj(pci, {"_array": arr, "_shape": VTuple([VInt(D.ROWS), VInt(D.COLS)]), "_numbytes": VInt(0)}))
            ex.me = me
            return [me], {}
        ps = u.paths(fi, setup, cfg, label=f"Pixel.empty[{pre}, IEEE]")
        for p in ps:
            if p.kind != "return":
                u.oblige(p, f"empty.pixel_reset_ieee[{pre}].returns", False, {"exc": p.exc_name()}, PIXRESET_REPLAY)
                continue
            a = p.st.cell(p.ex.me).fields.get("_array")
            if not p.ex.is_arr(a):
                u.oblige(p, f"empty.pixel_reset_ieee[{pre}].zero_whatever_it_held", False, {"stored": repr(a)}, PIXRESET_REPLAY)
                continue
            c = p.st.cell(a)
            g = (D.GEN[0], D.GEN[1])
            e = c.elem(g)
            if is_conc(e.v):
                goal = zb(float(e.v) == 0.0)
            elif is_fp(e.v):
                goal = z3.fpIsZero(e.v)
            else:
                goal = to_real(e) == 0
            inr = z3.And(g[0] >= 0, g[0] < D.ROWS, g[1] >= 0, g[1] < D.COLS)
            u.oblige(p, f"empty.pixel_reset_ieee[{pre}].zero_whatever_it_held", z3.Implies(inr, z3.And(goal, z_int(c.shape[0]) == D.ROWS, z_int(c.shape[1]) == D.COLS)),
                     {"previous value": F(g[0], g[1]) if pre == "full" else "none"}, PIXRESET_REPLAY)
        u.cover(f"empty.pixel_reset_ieee.cover[{pre}]", ps, lambda p: p.kind == "return")


# ---- Readout setters: an assignment that is refused leaves the schedule as it was; an accepted one leaves a valid schedule --------------------
RSET_REPLAY = lambda w: {"code": """
import numpy as np
from pyxel.exposure import Readout
VIOLATED, DETAIL = False, 'a refused assignment to readout.start_time / readout.times changes nothing; an accepted one gives positive first step'
def snap(r): return (float(r.start_time), np.asarray(r.times, dtype=float).tolist(), np.asarray(r._steps, dtype=float).tolist(), r._num_steps)
for attr, bad in (('start_time', 2.0), ('start_time', 1.0), ('times', [0.25, 5.0]), ('times', [0.5, 1.0]), ('times', [0.0, 1.0]), ('times', []), ('times', [[1.0, 2.0]])):
    r = Readout(times=[1.0, 2.0, 3.0], start_time=0.5)
    before = snap(r)
    try:
        setattr(r, attr, bad)
        VIOLATED, DETAIL = True, f'readout.{attr} = {bad!r} accepted on a schedule starting at 0.5 with times [1, 2, 3]'; break
    except (ValueError, TypeError, IndexError):
        pass
    if snap(r) != before:
        VIOLATED, DETAIL = True, f'readout.{attr} = {bad!r} is refused but leaves start / times / steps = {snap(r)} (was {before})'; break
if not VIOLATED:
    r = Readout(times=[1.0, 2.0, 3.0], start_time=0.5)
    r.start_time = 0.25; r.times = [2.0, 4.0]
    if snap(r) != (0.25, [2.0, 4.0], [1.75, 2.0], 2):
        VIOLATED, DETAIL = True, f'accepted assignments give {snap(r)}'
""", "expect": "Readout setters are atomic: refused => unchanged; accepted => steps recomputed from the new values"}


@unit("C02", "readout.setters.atomic")
def readout_setters_atomic(u: Unit):
    """Readout.start_time and Readout.times setters on a valid schedule (symbolic start < t0 < t1, steps consistent), arbitrary new value:
    if the assignment raises, start time, times, steps and step count are what they were; if it returns, start < first time, the stored
    value is the given one and the steps are recomputed from the NEW pair (calculate_steps is the contract of unit steps)."""
    RQ = "pyxel/exposure/readout.py"
    rci = u.cls(f"{RQ}::Readout")
    u.fn(f"{RQ}::Readout._set_steps")
    cq = f"{RQ}::calculate_steps"
    S0, T0, T1, NEW = z3.Real("start0"), z3.Real("t0"), z3.Real("t1"), z3.Real("new_value")
    for attr in ("start_time", "times"):
        fs = rci.setters[attr]
        u.functions.setdefault(fs.qualname, {"sha": fs.sha, "file_sha": fs.module.sha, "paths": 0, "obligations": 0, "role": "under contract"})
        cfg = Cfg("real")
        rec = u.track({})

        def steps(ex, args, kwargs, fr, rec=rec):
            rec.setdefault("steps_of", []).append((kwargs.get("times", args[0] if args else None), kwargs.get("start_time", args[1] if len(args) > 1 else None)))
            t = kwargs.get("times", args[0] if args else None)
            n = ex.st.cell(t).shape[0]
            return ex.st.alloc(HArr((n,), VDtype("float64"), lambda ix: VFloat(ex.st.fresh_real("step"))))
        cfg.contracts[cq] = Contract(cq, steps, "C02.steps: steps[i] = t_i - (t_(i-1) | start)")

        def setup(ex, attr=attr, rec=rec):
            rec.clear()
            st = ex.st
            st.assume(z3.And(S0 >= 0, S0 < T0, T0 < T1))
            times = st.alloc(HArr((2,), VDtype("float64"), lambda ix: VFloat(z3.If(z_int(ix[0]) == 0, T0, T1))))
            old_steps = st.alloc(HArr((2,), VDtype("float64"), lambda ix: VFloat(z3.If(z_int(ix[0]) == 0, T0 - S0, T1 - T0))))
            me = st.alloc(HObj(rci, {"_times": times, "_start_time": VFloat(S0), "_steps": old_steps, "_num_steps": VInt(2), "_times_linear": VBool(z3.Bool("linear0")),
                                     "_non_destructive": VBool(False), "_time_domain_simulation": VBool(True)}))
            ex.me, ex.old = me, dict(st.cell(me).fields)
            val = VFloat(NEW) if attr == "start_time" else st.alloc(HList([VFloat(NEW), VFloat(z3.Real("new_value2"))]))
            ex.val = val
            return [me, val], {}
        ps = u.paths(fs, setup, cfg, label=f"Readout.{attr}.setter")
        for p in ps:
            f = p.st.cell(p.ex.me).fields
            if p.kind == "raise":
                same = all(f.get(k) is v for k, v in p.ex.old.items())
                u.oblige(p, f"readout.setters.atomic[{attr},refused]", bool(same), {"changed": str([k for k, v in p.ex.old.items() if f.get(k) is not v]), "new_value": NEW}, RSET_REPLAY, fnq=fs.qualname)
                continue
            so = rec.get("steps_of", [])
            if attr == "start_time":
                ok = isinstance(f.get("_start_time"), VFloat) and f["_times"] is p.ex.old["_times"] and len(so) == 1 and so[0][0] is f["_times"] and so[0][1] is f["_start_time"]
                goal = z3.And(zb(bool(ok)), to_real(f["_start_time"]) == NEW, NEW < T0) if ok else z3.BoolVal(False)
            else:
                t = f.get("_times")
                ok = p.ex.is_arr(t) and len(so) == 1 and so[0][0] is t and so[0][1] is f["_start_time"] and f["_start_time"] is p.ex.old["_start_time"]
                goal = z3.And(zb(bool(ok)), to_real(p.st.cell(t).elem((z3.IntVal(0),))) == NEW, S0 < NEW, NEW != 0) if ok else z3.BoolVal(False)
            u.oblige(p, f"readout.setters.atomic[{attr},accepted]", goal, {"new_value": NEW}, RSET_REPLAY, fnq=fs.qualname)
        u.cover(f"readout.setters.cover[{attr}]", ps, lambda p: p.kind == "return")
        u.cover(f"readout.setters.cover_refusal[{attr}]", ps, lambda p: p.kind == "raise")
