"""A symbolic detector: the real container classes instantiated by their real constructors, with arbitrary
(symbolic) prior contents. Shared by the contracts that execute code operating on a Detector."""
from __future__ import annotations

from pyvc import arrays
from .common import *  # noqa: F401,F403
from . import boundary

DS = "pyxel/data_structure/"
DET = "pyxel/detectors/detector.py"
ROWS, COLS = z3.Int("rows"), z3.Int("cols")
GEN = (z3.Int("g_r"), z3.Int("g_c"))
FLOATS = ("float16", "float32", "float64")
UINTS = ("uint8", "uint16", "uint32", "uint64")


def sym_frame(ex, name, dtype="float64", shape=None):
    f = z3.Function(ex.st.fresh_name(name), z3.IntSort(), z3.IntSort(), z3.RealSort())
    return ex.st.alloc(HArr(shape or (ROWS, COLS), VDtype(dtype), lambda ix, f=f: VFloat(f(z_int(ix[0]), z_int(ix[1])))))


def maybe_frame(ex, name, dtype="float64"):
    """A bucket content: empty or a frame of the detector's shape (presence is a free Bool)."""
    return VMaybe(z3.Bool(ex.st.fresh_name(name + "_present")), sym_frame(ex, name, dtype))


def df_obj(ex, nrows, content=None):
    """A DataFrame: number of rows + a CONTENT token (copies, deep copies and column re-selections carry the token of their source)."""
    # a newly created DataFrame is a different OBJECT from every DataFrame made before it: identity tokens are distinct numerals
    # (no assumption needed); its CONTENT token stays symbolic (two tables may or may not hold the same rows)
    k = ex.st.ghost.get("df_count", 0) + 1
    ex.st.ghost["df_count"] = k
    t = z3.IntVal(7_000_000 + k)
    if content is None:
        content = ex.st.fresh_int("df_content")
    return VOpaque("df", t, {"nrows": nrows, "type": "pandas.DataFrame", "content": content})


def install_df(cfg: Cfg):
    def attr(ex, obj, name, fr):
        if name == "empty":
            return VBool(obj.info["nrows"] == 0)
        if name == "copy":
            return VLib("df.copy", obj)
        raise Unsupported(f"DataFrame.{name}")
    cfg.lib_overrides[("opaque_attr", "df")] = attr
    cfg.lib_overrides["df.copy"] = lambda ex, f, args, kwargs, fr: df_obj(ex, f.self_val.info["nrows"], f.self_val.info.get("content"))
    cfg.lib_overrides[("len", "df")] = lambda ex, v, fr: VInt(v.info["nrows"])
    cfg.lib_overrides[("deepcopy", "df")] = lambda ex, v, dc, fr: df_obj(ex, v.info["nrows"], v.info.get("content"))


def mk_detector(ex, u, prior="arbitrary", cls_qual="pyxel/detectors/ccd/ccd.py::CCD"):
    """Detector object with real bucket objects. prior='arbitrary': every bucket holds arbitrary valid content
    left by an earlier run (history quantifier); 'fresh': as after _initialize()."""
    w = u.world
    st = ex.st
    st.assume(z3.And(ROWS > 0, COLS > 0, GEN[0] >= 0, GEN[0] < ROWS, GEN[1] >= 0, GEN[1] < COLS))
    st.ghost.setdefault("generic", []).append(GEN)
    geo = st.alloc(HObj(w.cls("pyxel/detectors/geometry.py::Geometry"), {"_row": VInt(ROWS), "_col": VInt(COLS)}))
    fr = Frame(None, None)

    def inst(path, cname):
        ci = w.cls(f"{DS}{path}::{cname}")
        return ex.instantiate(ci, [geo], {}, Frame(None, ci.module))
    photon, pixel, signal, image = inst("photon.py", "Photon"), inst("pixel.py", "Pixel"), inst("signal.py", "Signal"), inst("image.py", "Image")
    cci = w.cls(f"{DS}charge.py::Charge")
    charge = st.alloc(HObj(cci, {"_array": sym_frame(ex, "charge0") if prior == "arbitrary" else arrays.const_array(ex, (ROWS, COLS), VDtype("float64"), VInt(0)),
                                 "_geo": geo, "nextid": VInt(z3.Int("nextid0") if prior == "arbitrary" else 0),
                                 "EMPTY_FRAME": df_obj(ex, z3.IntVal(0)),
                                 "_frame": df_obj(ex, z3.Int("charge_rows0") if prior == "arbitrary" else z3.IntVal(0))}))
    if prior == "arbitrary":
        st.assume(z3.Int("charge_rows0") >= 0)
        st.cell(photon).fields["_array"] = maybe_frame(ex, "photon0")
        st.cell(pixel).fields["_array"] = maybe_frame(ex, "pixel0")
        st.cell(signal).fields["_array"] = maybe_frame(ex, "signal0")
        st.cell(image).fields["_array"] = maybe_frame(ex, "image0", "uint16")
    dci = w.cls(cls_qual)
    det = st.alloc(HObj(dci, {
        "_geometry": geo, "_photon": photon, "_pixel": pixel, "_signal": signal, "_image": image, "_charge": charge,
        "_scene": VOpaque("xr", st.fresh_int("scene0"), {"label": "scene0", "truthy": True}), "_data": VOpaque("xr", st.fresh_int("data0"), {"label": "data0", "truthy": True}),
        "_intermediate": NONE, "_readout_properties": NONE, "_persistence": NONE, "_memory": st.alloc(HDict([])),
        "current_running_model_name": VStr(""), "header": NONE, "_output_dir": NONE}))
    ex.det_parts = {"geo": geo, "photon": photon, "pixel": pixel, "signal": signal, "image": image, "charge": charge, "det": det}
    return det


def install(cfg: Cfg):
    boundary.install(cfg)
    install_df(cfg)
    # Scene() allocates a fresh (empty) scene container: modelled as a fresh boundary object tagged 'fresh_scene'
    cfg.contracts["pyxel/data_structure/scene.py::Scene.__init__"] = Contract(
        "pyxel/data_structure/scene.py::Scene.__init__", lambda ex, args, kwargs, fr: NONE, "Scene(): fresh empty scene (xarray DataTree inside: boundary)")
    return cfg


def bucket_array(st, ref):
    return st.cell(ref).fields.get("_array")


def is_empty_bucket(st, ref):
    """bool | z3 Bool: the container holds nothing."""
    a = bucket_array(st, ref)
    if isinstance(a, VNone):
        return True
    if isinstance(a, VMaybe):
        return z3.Not(a.present)
    return False


def frame_elem(st, val, g=GEN):
    """Element of a bucket content at the generic pixel (Real term) or None."""
    if isinstance(val, VMaybe):
        val = val.val
    if isinstance(val, VRef) and isinstance(st.cell(val), HArr):
        return to_real(st.cell(val).elem(g))
    return None
