"""C19 — output files are complete, correctly attributed and never clobbered.

Ghost file system FS (contracts/fsmodel.py).
  dir.fresh             create_output_directory returns p with p absent at the instant of its own (atomic) mkdir and present
                        afterwards — proved UNDER INTERFERENCE (before every file-system operation other actors may add
                        arbitrary files), for an arbitrary time stamp: same-second and concurrent starts are covered
  write.no_clobber[w]   every writer: a path that exists before the call has the same content after it
  write.writes_data[w]  the writer returns the path it wrote, which then holds the data it was given
  names.injective       apply_run_number: different run numbers give different file names; run n gets suffix n + 1
  build.names           Outputs.build_filenames: one name per requested (bucket, format), distinct, carrying the run suffix
  complete              save_to_files reports exactly one file per requested name (loop over the requested names)
"""
from __future__ import annotations

import ast

from .common import *  # noqa: F401,F403
from . import defuse as DU
from . import fsmodel as FSM, boundary

OU = "pyxel/outputs/utils.py"
BOUNDED = {
    r'^save\.failure': 'five request lists that fail part-way or meet an existing file',
    r'^save ': 'request lists of 1..3 file names (one bucket requested twice, non-adjacent)',
    r'^save\.method': 'requests of 1..3 buckets with 1..3 formats each (an image format before lossless ones included)',
    r'^names build\.names': 'a save configuration of two buckets and three formats',
}      # unit-name / obligation-name patterns -> the family these obligations are proved for
OO = "pyxel/outputs/outputs.py"
TRUSTED = ["Path.mkdir(exist_ok=False) is atomic; np.save/np.savetxt/PIL save/to_csv/h5py 'w' create or truncate; fits writeto(overwrite=False) refuses existing files",
           "lossless formats read back bit-identically (numpy / astropy I/O) — not proved", "rely condition: other actors only ADD files",
           "Path.resolve() is the identity on the absolute paths used; symbolic folder / name components contain no '?', '.', '{}'",
           "to_hdf / to_netcdf (h5py, netCDF4 not installed) are outside"]


def mk_cfg(interference=False):
    cfg = Cfg("real")
    boundary.install(cfg, prefixes=("xarray.", "astropy.", "PIL.", "h5py."))
    FSM.install(cfg)
    cfg.lib_overrides["datetime.datetime.now"] = lambda ex, f, args, kwargs, fr: VOpaque("dt", None, {})
    cfg.lib_overrides[("opaque_attr", "dt")] = lambda ex, obj, name, fr: VLib("dt." + name, obj)
    cfg.lib_overrides["dt.strftime"] = lambda ex, f, args, kwargs, fr: VStr(z3.String(ex.st.fresh_name("timestamp")))
    # writers of the libraries
    data_id = lambda ex, v: FSM.content_of(z3.IntVal(v.addr)) if isinstance(v, VRef) else FSM.content_of(ex.st.fresh_int("data"))

    def np_save(ex, f, args, kwargs, fr):
        FSM.write(ex, args[0] if args else kwargs["file"], data_id(ex, kwargs.get("arr", args[1] if len(args) > 1 else None)), "truncate")
        return NONE
    cfg.lib_overrides["numpy.save"] = np_save
    cfg.lib_overrides["numpy.savetxt"] = lambda ex, f, args, kwargs, fr: (FSM.write(ex, args[0], data_id(ex, args[1]), "truncate"), NONE)[1]

    def fits_writeto(ex, f, args, kwargs, fr):
        ow = kwargs.get("overwrite", VBool(False))
        # fits.writeto(filename, data, header=None, ...): either argument may be given by position
        FSM.write(ex, kwargs.get("filename", args[0] if args else None), data_id(ex, kwargs.get("data", args[1] if len(args) > 1 else None)), "truncate" if ex.truth(ow) is True else "exclusive")
        return NONE
    cfg.lib_prefix["astropy."] = lambda ex, f, args, kwargs, fr: fits_writeto(ex, f, args, kwargs, fr) if f.name.endswith("fits.writeto") else boundary._lib_call(ex, f, args, kwargs, fr)
    # method calls on boundary objects that write: hdu.writeto(path, overwrite=False), img.save(path), data.to_csv(path)
    base_call = cfg.lib_overrides[("call", "xr")]

    def xr_call(ex, f, args, kwargs, fr):
        label = str(f.info.get("label", ""))
        if label.endswith(".writeto"):
            ow = kwargs.get("overwrite", VBool(False))
            # astropy: an HDU built from (data[, header]) holds that data (scaling cards of the given header are reconciled with the data,
            # exactly as fits.writeto does); cards MERGED into hdu.header afterwards (update / extend(update=True) / BSCALE, BZERO, BLANK set by
            # hand) are written verbatim and change what a reader gets back: the file content is then NOT known to be the data
            hdu = f.info.get("of")
            content = FSM.content_of(ex.st.fresh_int("hdu"))
            if isinstance(hdu, VOpaque) and str(hdu.info.get("label", "")).endswith("PrimaryHDU()"):
                a, k = hdu.info.get("args") or [], hdu.info.get("kwargs") or {}
                d = k.get("data", a[0] if a else None)
                merged = False
                for ev in ex.st.events:
                    if ev[0] == "xr_call" and isinstance(ev[4], VOpaque) and isinstance(ev[4].info.get("of"), VOpaque) and ev[4].info["of"].info.get("of") is hdu \
                            and ev[4].info["of"].info.get("attr") == "header" and ev[4].info.get("attr") in ("update", "extend", "set", "append", "insert", "fromstring"):
                        merged = True
                    if ev[0] == "xr_setitem" and isinstance(ev[4], VOpaque) and ev[4].info.get("of") is hdu and ev[4].info.get("attr") == "header":
                        key = ev[2]
                        if not (isinstance(key, VStr) and isinstance(key.v, str) and key.v.upper() not in ("BSCALE", "BZERO", "BLANK", "BITPIX", "BUNIT") and not key.v.upper().startswith("NAXIS")):
                            merged = True
                if d is not None and not merged:
                    content = data_id(ex, d)
            FSM.write(ex, args[0] if args else kwargs.get("fileobj", kwargs.get("name")), content, "truncate" if ex.truth(ow) is True else "exclusive")
            return NONE
        if label.endswith(".save") or label.endswith(".to_csv"):
            FSM.write(ex, args[0], FSM.content_of(ex.st.fresh_int("img")), "truncate")
            return NONE
        return base_call(ex, f, args, kwargs, fr)
    cfg.lib_overrides[("call", "xr")] = xr_call
    cfg.contracts["pyxel/util/fileutil.py::complete_path"] = Contract("pyxel/util/fileutil.py::complete_path", lambda ex, args, kwargs, fr: kwargs.get("filename", args[0] if args else None),
                                                                      "complete_path: identity on absolute paths")
    return cfg


DIR_REPLAY = lambda w: {"code": """
import tempfile, os, threading
from pyxel.outputs.outputs import create_output_directory
from unittest import mock
import datetime as _dt
root = tempfile.mkdtemp()
class Fixed(_dt.datetime):
    @classmethod
    def now(cls, tz=None): return cls(2024, 1, 2, 3, 4, 5)
got = []
with mock.patch('pyxel.outputs.outputs.datetime', Fixed):
    ts = [threading.Thread(target=lambda: got.append(create_output_directory(root))) for _ in range(8)]
    [t.start() for t in ts]; [t.join() for t in ts]
    pre = os.path.join(root, 'run_20240102_030405_999');
    got.append(create_output_directory(root)); got.append(create_output_directory(root, custom_dir_name='run_'))
VIOLATED = len(set(map(str, got))) != len(got) or not all(os.path.isdir(p) for p in got)
DETAIL = f'{len(got)} directories requested within the same second, {len(set(map(str, got)))} distinct created'
""", "expect": "every start gets its own freshly created directory"}


@unit("C19", "dir.fresh")
def dir_fresh(u: Unit):
    fi = u.fn(f"{OO}::create_output_directory")
    cfg = mk_cfg()
    u.internal_replay, u.internal_witness = DIR_REPLAY, {}

    def inv(ex, fr, k):
        return z_int(int_of(fr.locals["count"])) >= 0
    cfg.loops[(fi.qualname, 0)] = LoopSpec("True", inv, name="dir.loop")
    for custom in (False, True):
        def setup(ex, custom=custom):
            ex.st.ghost["FS_INTERFERENCE"] = True
            folder = VStr(z3.String("output_folder"))
            return [], {"output_folder": folder, "custom_dir_name": VStr(z3.String("custom_name")) if custom else NONE}
        ps = u.paths(fi, setup, cfg, label=f"create_output_directory[custom={custom}]")
        for p in ps:
            if p.kind != "return":
                u.oblige(p, f"dir.fresh.no_raise[custom={custom}]", False, {"exc": p.exc_name()}, DIR_REPLAY)
                continue
            mk = [e for e in p.st.events if e[0] == "mkdir"]
            ok = len(mk) == 1 and isinstance(p.value, VOpaque) and p.value.kind == "path"
            if not ok:
                u.oblige(p, f"dir.fresh[custom={custom}]", False, {}, DIR_REPLAY)
                continue
            _, path, before, exist_ok = mk[0]
            u.oblige(p, f"dir.fresh[custom={custom}]", z3.And(z3.Select(before, path) == 0, z3.Select(p.st.ghost["FS"], path) != 0, FSM.path_text(p.value) == path), {}, DIR_REPLAY)
            u.oblige(p, f"dir.inside_requested_folder[custom={custom}]", z3.PrefixOf(z3.Concat(z3.String("output_folder"), z3.StringVal("/")), path), {}, DIR_REPLAY)
        u.cover(f"dir.cover[custom={custom}]", ps, lambda p: p.kind == "return")


WRITE_REPLAY = lambda w: {"code": """
import numpy as np, tempfile, os
from pathlib import Path
from pyxel.outputs import utils as U
d = Path(tempfile.mkdtemp())
data = np.arange(6.0).reshape(2, 3)
VIOLATED, DETAIL = False, ''
for name, fn, ext in (('to_npy', U.to_npy, 'npy'), ('to_txt', U.to_txt, 'txt'), ('to_fits', U.to_fits, 'fits'), ('to_png', U.to_png, 'png'), ('to_jpg', U.to_jpg, 'jpg')):
    target = d / f'detector_image.{ext}'
    target.write_bytes(b'precious')
    try:
        fn(current_output_folder=d, data=data.astype(np.uint8) if ext in ('png', 'jpg') else data, name='detector_image', with_auto_suffix=False)
    except Exception as e:
        pass
    if target.read_bytes() != b'precious':
        VIOLATED, DETAIL = True, f'{name} overwrote the existing file {target.name}'; break
if not VIOLATED:
    import pandas as pd
    target = d / 'detector_frame.csv'; target.write_bytes(b'precious')
    try: U.to_csv(current_output_folder=d, data=pd.DataFrame({'a': [1]}), name='detector_frame', with_auto_suffix=False)
    except Exception: pass
    if target.read_bytes() != b'precious': VIOLATED, DETAIL = True, 'to_csv overwrote the existing file'
if not VIOLATED:
    # the writer methods of the Outputs object (same rule); run numbers with the automatic suffix as well
    import warnings, pandas as pd
    warnings.simplefilter('ignore')
    from pyxel.outputs import ExposureOutputs
    out = ExposureOutputs(output_folder=d, save_data_to_file=[])
    out.create_output_folder()
    folder = Path(out.current_output_folder)
    for meth, ext in (('save_to_npy', 'npy'), ('save_to_txt', 'txt'), ('save_to_fits', 'fits'), ('save_to_png', 'png'), ('save_to_jpeg', 'jpeg'), ('save_to_jpg', 'jpg'), ('save_to_csv', 'csv')):
        for auto in (False, True):
            target = folder / (f'detector_image_1.{ext}' if auto else f'detector_image.{ext}')
            target.write_bytes(b'precious')
            arg = pd.DataFrame({'a': [1]}) if ext == 'csv' else data.astype(np.uint8) if ext in ('png', 'jpg', 'jpeg') else data
            try:
                getattr(out, meth)(arg, 'detector_image', with_auto_suffix=auto, **({'run_number': 0} if auto else {}))
            except Exception:
                pass
            if target.read_bytes() != b'precious':
                VIOLATED, DETAIL = True, f'Outputs.{meth}(with_auto_suffix={auto}) overwrote the existing file {target.name}'; break
        if VIOLATED: break
""", "expect": "no writer overwrites or truncates an existing file"}

INPUT_REPLAY = lambda w: {"code": """
import numpy as np, tempfile, warnings, verif_probes as VP
from pathlib import Path
from pyxel.outputs import utils as U
from pyxel.outputs.utils import save_to_files
from pyxel.pipelines import DetectionPipeline, Processor
warnings.simplefilter('ignore')
VIOLATED, DETAIL = False, 'a writer leaves the array it is given as it was; a bucket saved in several formats holds the same values in each'
d = Path(tempfile.mkdtemp())
for name in ('write_to_jpg', 'write_to_npy', 'write_to_fits'):
    a = np.linspace(100.0, 1839.0, 12).reshape(3, 4); keep = a.copy()
    kw = dict(filename=d / f'x_{name}.{name.split("_")[-1]}', data=a, overwrite=False)
    if name == 'write_to_fits': kw['header'] = None
    getattr(U, name)(**kw)
    if not np.array_equal(a, keep):
        VIOLATED, DETAIL = True, f'{name} changed the array it was given: now between {a.min()} and {a.max()} (was 100 .. 1839)'; break
for name in ('to_jpg', 'to_png', 'to_npy', 'to_fits', 'to_txt'):
    if VIOLATED: break
    a = np.linspace(100.0, 1839.0, 12).reshape(3, 4)
    if name in ('to_jpg', 'to_png'): a = (a / 8).astype(np.uint8)          # the image writers of this layer take 8-bit data
    keep = a.copy()
    getattr(U, name)(current_output_folder=d, data=a, name='y_' + name, with_auto_suffix=False)
    if not np.array_equal(a, keep):
        VIOLATED, DETAIL = True, f'{name} changed the array it was given'
if not VIOLATED:
    det = VP.detector(rows=3, cols=4); det.pixel.array = np.linspace(100.0, 1839.0, 12).reshape(3, 4)
    proc = Processor(detector=det, pipeline=DetectionPipeline())
    folder = Path(tempfile.mkdtemp())
    save_to_files(folder=folder, processor=proc, filenames=[Path('detector_pixel.jpg'), Path('detector_pixel.npy')], header=None)
    back = np.load(folder / 'detector_pixel.npy')
    if back.min() != 100.0 or back.max() != 1839.0 or det.pixel.array.max() != 1839.0:
        VIOLATED, DETAIL = True, f'pixel bucket saved as jpg then npy: the npy file holds {back.min()} .. {back.max()}, the bucket {det.pixel.array.min()} .. {det.pixel.array.max()} (was 100 .. 1839)'
""", "expect": "no writer modifies the array it writes"}

WRITERS = [("to_fits", True), ("to_npy", True), ("to_txt", True), ("to_csv", False), ("to_png", True), ("to_jpg", True)]
LOW_WRITERS = ["write_to_fits", "write_to_npy", "write_to_jpg"]
METHOD_WRITERS = [("save_to_fits", True), ("save_to_npy", True), ("save_to_txt", True), ("save_to_csv", False), ("save_to_png", True), ("save_to_jpeg", True), ("save_to_jpg", True)]


LOSSLESS = ("to_fits", "to_npy")

HEADER_REPLAY = lambda w: {"code": """
import numpy as np, tempfile, pathlib
from astropy.io import fits
import pyxel.outputs.utils as U
d = pathlib.Path(tempfile.mkdtemp())
VIOLATED, DETAIL = False, 'every FITS / npy file read back bit-identically, whatever cards the propagated header carries'
rng = np.random.default_rng(2)
headers = {'none': None, 'plain': fits.Header({'OBSERVER': 'x', 'EXPTIME': 3.5}), 'raw uint16 frame': fits.Header({'BZERO': 32768, 'BSCALE': 1, 'OBSERVER': 'x'}),
           'scaled': fits.Header({'BSCALE': 0.5, 'BZERO': 10.0}), 'blank': fits.Header({'BLANK': -1, 'BUNIT': 'adu'})}
arrays = {'float64': rng.normal(size=(3, 4)) * 1e3, 'uint16': rng.integers(0, 65535, size=(3, 4)).astype(np.uint16), 'float32': rng.normal(size=(2, 2)).astype(np.float32), 'uint32': rng.integers(0, 2**32 - 1, size=(2, 3)).astype(np.uint32)}
for hn, h in headers.items():
    for an, a in arrays.items():
        f = d / f'{hn.replace(" ", "_")}_{an}.fits'
        keep = None if h is None else h.copy()
        U.write_to_fits(filename=f, data=a, header=keep, overwrite=False)
        back = fits.getdata(f)
        if back.dtype.newbyteorder('=') != a.dtype or not np.array_equal(back, a):
            VIOLATED, DETAIL = True, f'write_to_fits with a {hn!r} header: {an} array {a.ravel()[:3]} reads back as {np.asarray(back).dtype} {np.asarray(back).ravel()[:3]}'; break
    if VIOLATED: break
if not VIOLATED:
    a = arrays['float64']
    f = d / 'x.npy'
    U.write_to_npy(filename=f, data=a, overwrite=False)
    if not np.array_equal(np.load(f), a): VIOLATED, DETAIL = True, 'write_to_npy: file differs from the array'
""", "expect": "FITS files hold exactly the given array (read back bit-identically) for every propagated header, including those carrying BZERO/BSCALE/BLANK cards",
    "bound": "5 headers x the bucket dtypes float64, float32, uint16, uint32", "function": "pyxel/outputs/utils.py::write_to_fits"}


def check_writes(u, p, tag, rp):
    # the data handed to a writer is the detector's own bucket (save_to_files passes np.asarray(bucket)): the writer must leave it as it is
    d = getattr(p.ex, "data", None)
    if isinstance(d, VRef) and isinstance(p.st.cell(d), HArr):
        touched = any(e[0] == "lib_writes" and e[1] == d.addr for e in p.st.events) or p.st.cell(d)._elem is not getattr(p.ex, "data_elem", p.st.cell(d)._elem)
        u.oblige(p, f"write.input_untouched[{tag}]", not touched, {"data": "the array handed to the writer was written to"}, INPUT_REPLAY)
    for e in p.st.events:
        if e[0] == "delete":
            # nothing that was there when the call began may be removed: the entry must be known absent in the initial file system
            # (other actors only add files), i.e. it can only be a file this call created itself
            u.oblige(p, f"write.no_delete_of_existing[{tag}]", z3.Select(z3.Const("FS0", FSM.FS_SORT), e[1]) == 0, {"deleted": e[1]}, rp)
        if e[0] == "write":
            _, path, before, mode, did = e
            # a create-or-truncate write is only safe on a path known to be absent at that point
            goal = z3.BoolVal(True) if mode == "exclusive" else z3.Select(before, path) == 0
            u.oblige(p, f"write.no_clobber[{tag}]", goal, {}, rp)


@unit("C19", "write")
def write_unit(u: Unit):
    for name, is_array in WRITERS:
        fi = u.fn(f"{OU}::{name}")
        cfg = mk_cfg()
        for auto in (False, True):
            def setup(ex, auto=auto, is_array=is_array):
                folder = FSM.mk_path(ex, z3.String("folder"))
                data = ex.st.alloc(HArr((z3.Int("dr"), z3.Int("dc")), VDtype("float64"), lambda ix: VFloat(z3.RealVal(1)))) if is_array else VOpaque(
                    "xr", ex.st.fresh_int("df"), {"label": "dataframe", "type": "pandas.DataFrame"})
                kw = {"current_output_folder": folder, "data": data, "name": VStr("detector_image"), "with_auto_suffix": VBool(auto)}
                if auto:
                    kw["run_number"] = VInt(z3.Int("run_number"))
                    ex.st.assume(z3.Int("run_number") >= 0)
                ex.data = data
                ex.data_elem = ex.st.cell(data)._elem if isinstance(data, VRef) else None
                return [], kw
            ps = u.paths(fi, setup, cfg, label=f"{name}[auto={auto}]")
            n_ret = 0
            for p in ps:
                check_writes(u, p, f"{name},auto={auto},{p.kind}", WRITE_REPLAY)
                if p.kind == "return":
                    n_ret += 1
                    ws = [e for e in p.st.events if e[0] == "write"]
                    ok = len(ws) == 1 and isinstance(p.value, VOpaque) and p.value.kind == "path"
                    u.oblige(p, f"write.writes_data[{name},auto={auto}]", z3.And(zb(ok), (FSM.path_text(p.value) == ws[0][1]) if ok else z3.BoolVal(False),
                                                                                z3.Select(p.st.ghost["FS"], ws[0][1]) == ws[0][4] if ok else z3.BoolVal(False)), {}, WRITE_REPLAY)
                    if name in LOSSLESS and ok:
                        u.oblige(p, f"write.file_holds_the_given_array[{name},auto={auto}]", ws[0][4] == FSM.content_of(z3.IntVal(p.ex.data.addr)), {}, HEADER_REPLAY)
            u.guard(f"write.cover[{name},auto={auto}]", n_ret >= 1, fi.qualname, f"{n_ret} normal paths")
    # the writer METHODS of Outputs (public, deprecated in favour of the functions above, still complete writers of their own)
    oci = u.cls(f"{OO}::Outputs")
    for name, is_array in METHOD_WRITERS:
        fi = u.fn(f"{OO}::Outputs.{name}")
        cfg = mk_cfg()
        for auto in (False, True):
            def setup(ex, auto=auto, is_array=is_array):
                folder = FSM.mk_path(ex, z3.String("folder"))
                me = ex.st.alloc(HObj(oci, {"_current_output_folder": folder, "current_output_folder": folder, "_log": VOpaque("logger")}))
                data = ex.st.alloc(HArr((z3.Int("dr"), z3.Int("dc")), VDtype("float64"), lambda ix: VFloat(z3.RealVal(1)))) if is_array else VOpaque(
                    "xr", ex.st.fresh_int("df"), {"label": "dataframe", "type": "pandas.DataFrame"})
                kw = {"data": data, "name": VStr("detector_image"), "with_auto_suffix": VBool(auto)}
                if auto:
                    kw["run_number"] = VInt(z3.Int("run_number"))
                    ex.st.assume(z3.Int("run_number") >= 0)
                ex.data = data
                ex.data_elem = ex.st.cell(data)._elem if isinstance(data, VRef) else None
                return [me], kw
            ps = u.paths(fi, setup, cfg, label=f"Outputs.{name}[auto={auto}]")
            n_ret = 0
            for p in ps:
                check_writes(u, p, f"Outputs.{name},auto={auto},{p.kind}", WRITE_REPLAY)
                if p.kind == "return":
                    n_ret += 1
                    ws = [e for e in p.st.events if e[0] == "write"]
                    ok = len(ws) == 1 and isinstance(p.value, VOpaque) and p.value.kind == "path"
                    u.oblige(p, f"write.writes_data[Outputs.{name},auto={auto}]", z3.And(zb(ok), (FSM.path_text(p.value) == ws[0][1]) if ok else z3.BoolVal(False),
                                                                                        z3.Select(p.st.ghost["FS"], ws[0][1]) == ws[0][4] if ok else z3.BoolVal(False)), {}, WRITE_REPLAY)
                    if name.replace("save_", "") in LOSSLESS and ok:
                        u.oblige(p, f"write.file_holds_the_given_array[Outputs.{name},auto={auto}]", ws[0][4] == FSM.content_of(z3.IntVal(p.ex.data.addr)), {}, HEADER_REPLAY)
            u.cover(f"write.cover[Outputs.{name},auto={auto}]", ps, lambda p: p.kind == "return")
    for name in LOW_WRITERS:
        fi = u.fn(f"{OU}::{name}")
        cfg = mk_cfg()
        for hdr in ((False, True) if name == "write_to_fits" else (False,)):
            def setup(ex, name=name, hdr=hdr):
                data = ex.st.alloc(HArr((z3.Int("dr"), z3.Int("dc")), VDtype("float64"), lambda ix: VFloat(z3.RealVal(1))))
                ex.data, ex.data_elem = data, ex.st.cell(data)._elem
                kw = {"filename": FSM.mk_path(ex, z3.String("filename")), "data": data, "overwrite": VBool(False)}
                if name == "write_to_fits":
                    # the caller's header (detector.header: ANY cards, those of a loaded raw frame included)
                    kw["header"] = VOpaque("xr", ex.st.fresh_int("hdr"), {"label": "caller_header"}) if hdr else NONE
                return [], kw
            tag = f"{name},header={hdr}" if name == "write_to_fits" else name
            ps = u.paths(fi, setup, cfg, label=tag)
            for p in ps:
                check_writes(u, p, f"{tag},{p.kind}", WRITE_REPLAY)
                if p.kind == "return" and name in ("write_to_fits", "write_to_npy"):
                    ws = [e for e in p.st.events if e[0] == "write"]
                    if ws:      # (no write at all: the file was already there and is left alone -- write.no_clobber)
                        u.oblige(p, f"write.file_holds_the_given_array[{tag}]", z3.And(zb(len(ws) == 1), ws[0][4] == FSM.content_of(z3.IntVal(p.ex.data.addr))), {}, HEADER_REPLAY)
            u.cover(f"write.cover[{tag}]", ps, lambda p: p.kind == "return")


NAMES_REPLAY = lambda w: {"code": """
from pyxel.outputs import ExposureOutputs
out = ExposureOutputs(output_folder='x', save_data_to_file=[{'detector.image.array': ['fits', 'npy']}, {'detector.pixel.array': ['npy']}])
VIOLATED, DETAIL = False, 'one distinct name per bucket, format and suffix'
seen = {}
for suffix in (None, 0, 7, '0.5', '0.7', 'a.b.c', """ + repr(w.get("suffix_text") or "run.1") + """):
    names = [str(n) for n in out.build_filenames(filename_suffix=suffix)]
    mid = '' if suffix is None else '_' + str(suffix)
    want = ['detector_image' + mid + '.fits', 'detector_image' + mid + '.npy', 'detector_pixel' + mid + '.npy']
    if names != want:
        VIOLATED, DETAIL = True, f'suffix {suffix!r}: names {names} (expected {want})'; break
    for n in names:
        if n in seen and seen[n] != suffix:
            VIOLATED, DETAIL = True, f'suffixes {seen[n]!r} and {suffix!r} give the same file name {n}'
        seen[n] = suffix
""", "expect": "build_filenames: detector_<bucket>[_<suffix>].<format>, distinct for distinct suffixes (dots in a text suffix kept)"}


@unit("C19", "names")
def names(u: Unit):
    fi = u.fn(f"{OU}::apply_run_number")
    cfg = mk_cfg()
    rp = lambda w: {"code": """
from pathlib import Path
from pyxel.outputs.utils import apply_run_number
t = Path('/tmp/out/detector_image_?.fits')
got = [str(apply_run_number(t, run_number=n)) for n in range(0, 25)]
VIOLATED = len(set(got)) != len(got) or got[0] != '/tmp/out/detector_image_1.fits'
DETAIL = 'names for runs 0..24: ' + repr(got[:4]) + ' ...'
""", "expect": "run n gets suffix n+1; distinct runs get distinct names"}
    outs = {}
    for tag in ("a", "b"):
        n = z3.Int(f"run_{tag}")

        def setup(ex, n=n):
            ex.st.assume(n >= 0)
            t = FSM.mk_path(ex, z3.Concat(z3.String("folder"), z3.StringVal("/"), z3.StringVal("detector_image_?.fits")))
            return [], {"template_filename": t, "run_number": VInt(n)}
        ps = [p for p in u.paths(fi, setup, cfg, label=f"apply_run_number[{tag}]") if p.kind == "return"]
        u.static(f"names.one_path[{tag}]", len(ps) == 1, fi.qualname, f"{len(ps)} normal paths")
        if ps:
            outs[tag] = (ps[0], FSM.path_text(ps[0].value), n)
    if len(outs) == 2:
        (pa, ta, na), (pb, tb, nb) = outs["a"], outs["b"]
        hyp = list(pa.st.pc) + list(pb.st.pc)
        u.oblige(None, "names.suffix_is_run_plus_one", ta == z3.Concat(z3.String("folder"), z3.StringVal("/detector_image_"), z3.IntToStr(na + 1), z3.StringVal(".fits")), {}, rp,
                 fnq=fi.qualname, hyps=hyp)
        u.oblige(None, "names.injective", ta != tb, {"run_a": na, "run_b": nb}, rp, fnq=fi.qualname, hyps=hyp + [na != nb])
    # build_filenames: one distinct name per requested (bucket, format)
    fb = u.fn(f"{OO}::Outputs.build_filenames")
    oci = u.cls(f"{OO}::Outputs")
    for suffix in (None, "sym", "text"):
        def setup_b(ex, suffix=suffix):
            cfgd = ex.st.alloc(HList([ex.st.alloc(HDict([(VStr("detector.image.array"), ex.st.alloc(HList([VStr("fits"), VStr("npy")])))])),
                                      ex.st.alloc(HDict([(VStr("detector.pixel.array"), ex.st.alloc(HList([VStr("npy")])))]))]))
            o = ex.st.alloc(HObj(oci, {"save_data_to_file": cfgd}))
            if suffix == "text":      # the suffix may be any text (e.g. "0.5": dots included) without a path separator
                ex.st.assume(z3.And(z3.Not(z3.Contains(z3.String("suffix_text"), z3.StringVal("/"))), z3.Length(z3.String("suffix_text")) > 0))
            return [o], {"filename_suffix": NONE if suffix is None else (VInt(z3.Int("suffix")) if suffix == "sym" else VStr(z3.String("suffix_text")))}
        for p in u.paths(fb, setup_b, cfg, label=f"build_filenames[suffix={suffix}]"):
            if p.kind != "return":
                u.oblige(p, f"build.names[{suffix}].no_raise", False, {}, rp)
                continue
            texts = [FSM.path_text(x) for x in (p.ex.try_list(p.value) or [])]
            mid = z3.StringVal("") if suffix is None else z3.Concat(z3.StringVal("_"), z3.IntToStr(z3.Int("suffix")) if suffix == "sym" else z3.String("suffix_text"))
            want = [z3.Concat(z3.StringVal("detector_image"), mid, z3.StringVal(".fits")), z3.Concat(z3.StringVal("detector_image"), mid, z3.StringVal(".npy")),
                    z3.Concat(z3.StringVal("detector_pixel"), mid, z3.StringVal(".npy"))]
            ok = len(texts) == 3
            u.oblige(p, f"build.names[suffix={suffix}]", z3.And(zb(ok), *([z3.simplify(a) == z3.simplify(b) for a, b in zip(texts, want)] if ok else [])), {"suffix_text": z3.String("suffix_text")}, NAMES_REPLAY,
                     hyps=[z3.Int("suffix") >= 0])


@unit("C19", "complete")
def complete(u: Unit):
    """save_to_files: loop over the requested names; each produces exactly one reported entry (AST shape obligations:
    the append is unconditional at the end of the loop body and every format branch either writes or raises)."""
    fi = u.fn(f"{OU}::save_to_files")
    loops = [n for n in ast.walk(fi.node) if isinstance(n, ast.For) and ast.unparse(n.iter) == "filenames"]
    ok = len(loops) == 1
    detail = "no loop over `filenames`"
    if ok:
        body = loops[0].body
        is_append = lambda st_: (isinstance(st_, ast.Expr) and isinstance(st_.value, ast.Call) and isinstance(st_.value.func, ast.Attribute) and st_.value.func.attr == "append"
                                 and isinstance(st_.value.func.value, ast.Subscript))
        m_idx = [i for i, st_ in enumerate(body) if any(isinstance(x, ast.Match) for x in ast.walk(st_))]      # the dispatch, possibly wrapped (try / with)
        a_idx = [i for i, st_ in enumerate(body) if is_append(st_)]
        no_skip = not any(isinstance(n, (ast.Continue, ast.Break)) for n in ast.walk(ast.Module(body=body, type_ignores=[])))
        match_nodes = [x for x in ast.walk(body[m_idx[0]]) if isinstance(x, ast.Match)] if len(m_idx) == 1 else []
        branches_ok = len(match_nodes) == 1 and all(any(isinstance(x, (ast.Raise,)) or (isinstance(x, ast.Expr) and "write_to_" in ast.unparse(x)) for x in c.body) for c in match_nodes[0].cases)
        # a wrapper around the dispatch must not swallow a failure of the writer (the name would be reported without a file)
        swallow = [h for x in ast.walk(body[m_idx[0]]) if isinstance(x, ast.Try) for h in x.handlers if not (h.body and isinstance(h.body[-1], ast.Raise))] if len(m_idx) == 1 else []
        branches_ok = branches_ok and not swallow
        ok = len(a_idx) == 1 and branches_ok and no_skip and a_idx[0] > m_idx[0]
        detail = f"unconditional append after the format dispatch: {len(a_idx) == 1 and bool(m_idx) and a_idx[0] > m_idx[0]}; every format branch writes or raises: {branches_ok}; no continue/break: {no_skip}"
    u.static("complete.one_entry_per_name", ok, fi.qualname, detail)
    fo = u.fn("pyxel/exposure/exposure.py::run_pipeline")
    cs = DU.calls(fo.node, "save_to_files")
    kw = DU.kw_args(fo.node, cs[0]) if len(cs) == 1 else {}
    guarded = False
    for node in ast.walk(fo.node):
        if isinstance(node, ast.If) and cs and any(c is cs[0] for c in ast.walk(ast.Module(body=node.body, type_ignores=[]))):
            t = DU.norm(fo.node, node.test)
            if t in ("outputsandoutputs.save_data_to_file", "outputsisnotNoneandoutputs.save_data_to_file", "outputs.save_data_to_file"):
                guarded = True
    ok_args = kw.get("folder") == "outputs.current_output_folder" and kw.get("processor") == "processor" and \
        kw.get("filenames") in ("outputs.build_filenames(filename_suffix=output_filename_suffix)", "outputs.build_filenames(output_filename_suffix)")
    u.static("complete.exposure_saves_when_requested", len(cs) == 1 and guarded and ok_args, fo.qualname,
             f"exposure.run_pipeline saves the requested names of THIS processor into the current output folder: guarded={guarded} args={kw}")
    from . import C07
    C07.fileindex(u)


# ---- save_to_files: each requested name is written once, from ITS bucket of THIS processor, and reported once ------------
SAVE_REPLAY = lambda w: {"code": """
import numpy as np, tempfile, pathlib, verif_probes as VP
from pyxel.outputs.utils import save_to_files
from pyxel.pipelines import DetectionPipeline, Processor
VIOLATED, DETAIL = False, 'every requested file was written from its own bucket and reported exactly once'
det = VP.detector(rows=2, cols=3)
det.pixel.array = np.full((2, 3), 5.0); det.signal.array = np.full((2, 3), 0.5); det.image.array = np.full((2, 3), 7, dtype=np.uint16)
proc = Processor(detector=det, pipeline=DetectionPipeline())
folder = pathlib.Path(tempfile.mkdtemp())
names = ['detector_image_3.fits', 'detector_pixel_3.npy', 'detector_image_3.npy', 'detector_signal_3.npy']
tree = save_to_files(folder=folder, processor=proc, filenames=[pathlib.Path(n) for n in names], header=None)
want = {'image': np.full((2, 3), 7), 'pixel': np.full((2, 3), 5.0), 'signal': np.full((2, 3), 0.5)}
for n in names:
    bucket = n.split('_')[1]
    f = folder / n
    if not f.exists():
        VIOLATED, DETAIL = True, f'{n} was requested but not written'; break
    data = np.load(f) if n.endswith('.npy') else __import__('astropy.io.fits', fromlist=['x']).getdata(f)
    if not np.array_equal(data, want[bucket]):
        VIOLATED, DETAIL = True, f'{n} holds {np.asarray(data).ravel()[:2]}, the {bucket} bucket holds {want[bucket].ravel()[:2]}'; break
    reported = [str(x) for x in np.atleast_1d(tree[f'/{bucket}']['filename'].values)] if f'/{bucket}' in tree.groups else []
    if sum(1 for r in reported if r.endswith(n)) != 1:
        VIOLATED, DETAIL = True, f'{n}: reported {sum(1 for r in reported if r.endswith(n))} time(s) under /{bucket}: {reported}'; break
""", "expect": "one written file and one reported entry per requested (bucket, format) name, holding that bucket"}


@unit("C19", "save")
def save_unit(u: Unit):
    """save_to_files executed on request lists of 1..3 names (buckets and formats chosen to include a bucket requested twice in
    non-adjacent positions): per name exactly one write_to_<format>(filename = folder/name, data = np.asarray(processor.get(
    'detector.<bucket of the name>'))), no overwrite unless asked, and the reported tree lists, per bucket, exactly the files of
    that bucket, in request order."""
    fi = u.fn(f"{OU}::save_to_files")
    requests = [["detector_image_3.fits"], ["detector_image_3.fits", "detector_pixel_3.npy"], ["detector_image_3.fits", "detector_pixel_3.npy", "detector_image_3.npy"],
                ["detector_signal.npy", "detector_image.jpg"]]
    for names in requests:
        cfg = Cfg("real")
        boundary.install(cfg)
        FSM.install(cfg)
        for wname in ("write_to_fits", "write_to_npy", "write_to_jpg"):
            q = f"{OU}::{wname}"
            cfg.contracts[q] = Contract(q, lambda ex, args, kwargs, fr, wname=wname: (ex.hold["writes"].append((wname, dict(kwargs))), NONE)[1], "C19.write: refuses existing files unless overwrite")
        cfg.lib_overrides[("np.array_of",)] = lambda ex, v, dtype, fr: VOpaque("xr", ex.st.fresh_int("arr"), {"label": "asarray", "of": v})
        cfg.lib_overrides["numpy.dtypes.StringDType"] = lambda ex, f, args, kwargs, fr: VDtype("str")
        cfg.lib_overrides["numpy.object_"] = lambda ex, f, args, kwargs, fr: VDtype("object")

        def setup(ex, names=names):
            h = ex.hold = {"writes": [], "gets": []}
            h["proc"] = VOpaque("xr", ex.st.fresh_int("xr"), {"label": "processor", "truthy": True})
            folder = FSM.mk_path(ex, "/out/run_1")
            return [], {"folder": folder, "processor": h["proc"], "filenames": ex.st.alloc(HList([FSM.mk_path(ex, n) for n in names])), "header": NONE}
        base_call = cfg.lib_overrides[("call", "xr")]

        def call(ex, f, args, kwargs, fr):
            r = base_call(ex, f, args, kwargs, fr)
            if str(f.info.get("label", "")) == "processor.get":
                r.info["bucket_key"] = args[0] if args else kwargs.get("key")
                r.info["label"] = "bucket"
            return r
        cfg.lib_overrides[("call", "xr")] = call
        base_attr = cfg.lib_overrides[("opaque_attr", "xr")]
        cfg.lib_overrides[("opaque_attr", "xr")] = lambda ex, obj, name, fr: VOpaque("xr", ex.st.fresh_int("a"), {"label": "bucket._array", "truthy": True}) if (name == "_array" and obj.info.get("label") == "bucket") else base_attr(ex, obj, name, fr)
        tag = "+".join(n.replace("detector_", "") for n in names)
        ps = u.paths(fi, setup, cfg, label=f"save_to_files[{tag}]")
        n_ret = 0
        for p in ps:
            if p.kind != "return":
                continue          # an uninitialised bucket / unknown name raises: nothing is reported
            n_ret += 1
            ws = p.ex.hold["writes"]
            ok = len(ws) == len(names)
            for (wname, kw), n in zip(ws, names):
                bucket, ext = n.split("_")[1].split(".")[0], n.rsplit(".", 1)[1]
                fn_ = kw.get("filename")
                d = kw.get("data")
                src = d.info.get("of") if isinstance(d, VOpaque) else None
                key = src.info.get("bucket_key") if isinstance(src, VOpaque) else None
                ok = ok and wname == {"fits": "write_to_fits", "npy": "write_to_npy", "jpg": "write_to_jpg"}[ext] and isinstance(fn_, VOpaque) and fn_.kind == "path" \
                    and str(z3.simplify(FSM.path_text(fn_))).strip('"') == "/out/run_1/" + n and isinstance(key, VStr) and key.v == f"detector.{bucket}" \
                    and isinstance(src, VOpaque) and src.info.get("fn") is not None and src.info["fn"].info.get("of") is p.ex.hold["proc"]
                ow = kw.get("overwrite")
                ok = ok and (ow is None or (isinstance(ow, VBool) and ow.v is False))
            u.oblige(p, f"save.one_write_per_name_from_its_bucket[{tag}]", bool(ok), {"writes": str([(w_, str(k.get('filename'))) for w_, k in ws])[:200]}, SAVE_REPLAY)
            # the reported tree: DataTree.from_dict({bucket: concat([DataArray(str(path), coords extension)...])})
            fd = [e for e in p.st.events if e[0] == "lib_call" and e[1] == "xarray.DataTree.from_dict"]
            rep_ok = len(fd) == 1 and isinstance(fd[0][2][0], VRef)
            if rep_ok:
                got = {}
                for k, v in p.st.cell(fd[0][2][0]).items:
                    node = v
                    while isinstance(node, VOpaque) and node.info.get("fn") is not None and str(node.info.get("label", "")) != "xarray.concat()":
                        node = node.info["fn"].info.get("of")
                    parts = p.ex.try_list(node.info["args"][0]) if isinstance(node, VOpaque) and node.info.get("args") else None
                    texts = []
                    for da in parts or []:
                        a0 = (da.info.get("args") or [None])[0] if isinstance(da, VOpaque) else None
                        texts.append(str(z3.simplify(z_str(a0.v))).strip('"') if isinstance(a0, VStr) else None)
                    got[k.v] = texts
                want = {}
                for n in names:
                    want.setdefault(n.split("_")[1].split(".")[0], []).append("/out/run_1/" + n)
                rep_ok = got == want
            u.oblige(p, f"save.reported_once_per_name[{tag}]", bool(rep_ok), {}, SAVE_REPLAY)
        u.cover(f"save.cover[{tag}]", [1] * n_ret, lambda _: True)


FAIL_REPLAY = lambda w: {"code": """
import numpy as np, tempfile, pathlib, verif_probes as VP
from pyxel.outputs.utils import save_to_files
from pyxel.pipelines import DetectionPipeline, Processor
VIOLATED, DETAIL = False, 'a failing request leaves every file that existed before untouched'
det = VP.detector(rows=2, cols=3)
det.pixel.array = np.full((2, 3), 5.0); det.image.array = np.full((2, 3), 7, dtype=np.uint16)
proc = Processor(detector=det, pipeline=DetectionPipeline())
for names, precious in ((['detector_image.fits', 'detector_image.png'], 'detector_image.png'), (['detector_pixel.npy', 'detector_pixel.dat'], 'detector_pixel.dat'),
                        (['detector_image.txt'], 'detector_image.txt'), (['detector_image.fits'], 'detector_image.fits'), (['detector_pixel.npy'], 'detector_pixel.npy')):
    folder = pathlib.Path(tempfile.mkdtemp())
    (folder / precious).write_bytes(b'precious')
    try:
        save_to_files(folder=folder, processor=proc, filenames=[pathlib.Path(n) for n in names], header=None)
    except Exception:
        pass
    if not (folder / precious).exists() or (folder / precious).read_bytes() != b'precious':
        VIOLATED, DETAIL = True, f'request {names}: the file {precious} that existed before the call is ' + ('gone' if not (folder / precious).exists() else 'changed'); break
""", "expect": "no file that existed before save_to_files is deleted, truncated or overwritten, whether the request succeeds or fails"}


@unit("C19", "save.failure")
def save_failure(u: Unit):
    """save_to_files with the REAL low-level writers on the ghost file system, for requests that fail part-way (a format without a writer
    after a supported one; a name whose file already exists): on every exit — normal or exceptional — each write went to a path known
    absent, and no path of the initial file system was deleted."""
    fi = u.fn(f"{OU}::save_to_files")
    for names in (["detector_image_3.fits", "detector_image_3.png"], ["detector_pixel_3.npy", "detector_pixel_3.dat"], ["detector_image_3.txt"], ["detector_image_3.npy"], ["detector_image_3.fits"]):
        cfg = mk_cfg()
        boundary.install(cfg)
        FSM.install(cfg)
        cfg.lib_overrides[("np.array_of",)] = lambda ex, v, dtype, fr: ex.st.alloc(HArr((z3.Int("dr"), z3.Int("dc")), VDtype("float64"), lambda ix: VFloat(z3.RealVal(1))))
        cfg.lib_overrides["numpy.dtypes.StringDType"] = lambda ex, f, args, kwargs, fr: VDtype("str")
        cfg.lib_overrides["numpy.object_"] = lambda ex, f, args, kwargs, fr: VDtype("object")
        base_attr = cfg.lib_overrides[("opaque_attr", "xr")]
        cfg.lib_overrides[("opaque_attr", "xr")] = lambda ex, obj, name, fr, base_attr=base_attr: VOpaque("xr", ex.st.fresh_int("a"), {"label": "bucket._array", "truthy": True}) if name == "_array" else base_attr(ex, obj, name, fr)

        def setup(ex, names=names):
            proc = VOpaque("xr", ex.st.fresh_int("xr"), {"label": "processor", "truthy": True})
            return [], {"folder": FSM.mk_path(ex, "/out/run_1"), "processor": proc, "filenames": ex.st.alloc(HList([FSM.mk_path(ex, n) for n in names])), "header": NONE}
        tag = "+".join(n.replace("detector_", "") for n in names)
        ps = u.paths(fi, setup, cfg, label=f"save_to_files[failing request {tag}]")
        for p in ps:
            check_writes(u, p, f"save_to_files {tag},{p.kind}", FAIL_REPLAY)
        u.cover(f"save.failure.cover[{tag}]", ps, lambda p: True)
        if any(n.rsplit(".", 1)[1] not in ("fits", "npy", "jpg", "jpeg") for n in names):
            u.cover(f"save.failure.cover_raise[{tag}]", ps, lambda p: p.kind == "raise")


# ---- Outputs.save_to_file: the per-run writer of the sequential observation path -----------------------------------------------------
METHOD_REPLAY = lambda w: {"code": """
import numpy as np, tempfile, pathlib, warnings, verif_probes as VP
from pyxel.outputs import ObservationOutputs
from pyxel.pipelines import DetectionPipeline, Processor
warnings.simplefilter('ignore')
VIOLATED, DETAIL = False, 'every requested (bucket, format) of the run was written once from its own bucket and reported under its own name'
det = VP.detector(rows=2, cols=3, adc_bit_resolution=16)
det.pixel.array = np.full((2, 3), 5.0); det.signal.array = np.full((2, 3), 0.5); det.image.array = np.full((2, 3), 7000, dtype=np.uint16)
proc = Processor(detector=det, pipeline=DetectionPipeline())
root = pathlib.Path(tempfile.mkdtemp())
out = ObservationOutputs(output_folder=root, save_data_to_file=[{'detector.image.array': ['png', 'npy', 'fits']}, {'detector.pixel.array': ['npy']}, {'detector.signal.array': ['npy', 'txt']}])
out.create_output_folder() if hasattr(out, 'create_output_folder') else None
folder = pathlib.Path(out.current_output_folder)
want = {'image': np.full((2, 3), 7000), 'pixel': np.full((2, 3), 5.0), 'signal': np.full((2, 3), 0.5)}
for run in (0, 1):
    tree = out.save_to_file(processor=proc, run_number=run)
    for bucket, fmts in (('image', ['png', 'npy', 'fits']), ('pixel', ['npy']), ('signal', ['npy', 'txt'])):
        names = {str(k): str(v) for k, v in zip(np.atleast_1d(tree[f'/{bucket}']['filename'].coords['data_format'].values), np.atleast_1d(tree[f'/{bucket}']['filename'].values))}
        if sorted(names) != sorted(fmts):
            VIOLATED, DETAIL = True, f'run {run}: formats reported for {bucket}: {sorted(names)} (requested {fmts})'; break
        for fmt, name in names.items():
            f = folder / name
            if not f.exists() or not name.endswith('.' + fmt) or f'_{run}.' not in name and f'_{run + 1}.' not in name:
                VIOLATED, DETAIL = True, f'run {run}: reported file {name} for {bucket}/{fmt} missing or misnamed'; break
            if fmt == 'png': continue
            data = np.load(f) if fmt == 'npy' else (np.loadtxt(f, delimiter='|') if fmt == 'txt' else __import__('astropy.io.fits', fromlist=['x']).getdata(f))
            if not np.array_equal(np.asarray(data, dtype=float), want[bucket].astype(float)):
                VIOLATED, DETAIL = True, f'run {run}: {name} holds {np.asarray(data).ravel()[:2]}, the {bucket} bucket holds {want[bucket].ravel()[:2]}'; break
    if VIOLATED: break
""", "expect": "Outputs.save_to_file writes one file per requested (bucket, format) from that bucket and reports it under that bucket and format"}


@unit("C19", "save.method")
def save_method_unit(u: Unit):
    """Outputs.save_to_file (used per run by the sequential observation path): for every requested bucket that holds data and every
    requested format exactly one to_<format>(current_output_folder = this run's folder, data = np.array(processor.get(<that bucket>)),
    name = <that bucket's key>, run_number = this run's number), image formats only for the digitised image; the reported mapping has,
    per bucket key and format, the name of the file that call returned. Requests: 1..3 buckets with 1..2 formats (bounded)."""
    fi = u.fn(f"{OO}::Outputs.save_to_file")
    oci = u.cls(f"{OO}::Outputs")
    requests = [[("detector.image.array", ["npy"])], [("detector.image.array", ["npy", "fits"]), ("detector.pixel.array", ["npy"])],
                [("detector.signal.array", ["txt", "npy"]), ("detector.image.array", ["png"]), ("detector.pixel.array", ["fits"])],
                [("detector.image.array", ["jpg", "fits", "npy"])]]
    WR = {"fits": "to_fits", "hdf": "to_hdf", "npy": "to_npy", "txt": "to_txt", "csv": "to_csv", "png": "to_png", "jpg": "to_jpg", "jpeg": "to_jpg"}
    for req in requests:
        cfg = Cfg("real")
        boundary.install(cfg)
        FSM.install(cfg)
        for wname in sorted(set(WR.values())):
            q = f"{OU}::{wname}"

            def wr(ex, args, kwargs, fr, wname=wname):
                i = len(ex.hold["writes"])
                ex.hold["writes"].append((wname, list(args), dict(kwargs)))
                return VOpaque("xr", ex.st.fresh_int("path"), {"label": f"written{i}", "truthy": True})
            cfg.contracts[q] = Contract(q, wr, "C19.write: one fresh file, refuses existing ones")
        cfg.contracts[f"{OO}::_dict_to_datatree"] = Contract(f"{OO}::_dict_to_datatree", lambda ex, args, kwargs, fr: (ex.hold.__setitem__("reported", args[0] if args else kwargs.get("all_filenames")),
                                                                                                              VOpaque("xr", ex.st.fresh_int("tree"), {"label": "tree"}))[1], "report (boundary)")
        cfg.lib_overrides[("np.array_of",)] = lambda ex, v, dtype, fr: VOpaque("xr", ex.st.fresh_int("arr"), {"label": "np.array", "of": v})
        cfg.lib_overrides["astropy.io.fits.Header"] = lambda ex, f, args, kwargs, fr: VOpaque("xr", ex.st.fresh_int("hdr"), {"label": "header"})
        base_call = cfg.lib_overrides[("call", "xr")]

        def call(ex, f, args, kwargs, fr):
            r = base_call(ex, f, args, kwargs, fr)
            lab = str(f.info.get("label", ""))
            if lab == "processor.get":
                r.info["bucket_key"] = args[0] if args else kwargs.get("key")
                r.info["truthy"] = True
            if lab.endswith("pipeline.describe"):
                return ex.st.alloc(HList([]))
            return r
        cfg.lib_overrides[("call", "xr")] = call
        cfg.lib_overrides[("binop", "xr")] = lambda ex, op, a, b: VOpaque("xr", ex.st.fresh_int("xr"), {"label": "rescaled", "of": a if isinstance(a, VOpaque) and a.info.get("label") != "rescaled" else b, "scaled": True})
        base_attr = cfg.lib_overrides[("opaque_attr", "xr")]

        def attr(ex, obj, name, fr):
            if name == "adc_bit_resolution":
                return VInt(8)
            if name == "name" and str(obj.info.get("label", "")).startswith("written"):
                return VStr(z3.String(f"name_of_{obj.info['label']}"))
            return base_attr(ex, obj, name, fr)
        cfg.lib_overrides[("opaque_attr", "xr")] = attr
        cfg.lib_overrides[("identical_none", "xr")] = None

        def setup(ex, req=req):
            h = ex.hold = {"writes": []}
            h["proc"] = VOpaque("xr", None, {"label": "processor", "truthy": True})
            h["folder"] = FSM.mk_path(ex, "/out/run_1")
            sd = ex.st.alloc(HList([ex.st.alloc(HDict([(VStr(k), ex.st.alloc(HList([VStr(f) for f in fmts])))])) for k, fmts in req]))
            me = ex.st.alloc(HObj(oci, {"save_data_to_file": sd, "current_output_folder": h["folder"], "_current_output_folder": h["folder"]}))
            return [me], {"processor": h["proc"], "run_number": VInt(z3.Int("run_number"))}
        tag = "+".join(k.split(".")[1] + ":" + "/".join(f) for k, f in req)
        ps = u.paths(fi, setup, cfg, label=f"Outputs.save_to_file[{tag}]")
        n_ret = 0
        for p in ps:
            if p.kind != "return":
                u.oblige(p, f"save.method.no_raise[{tag}]", False, {"exc": p.exc_name(), "msg": str(p.st.cell(p.value).fields.get("args"))[:200]}, METHOD_REPLAY)
                continue
            n_ret += 1
            ws = p.ex.hold["writes"]
            want = [(k, f) for k, fmts in req for f in fmts]
            ok = len(ws) == len(want)
            detail = ""
            for (wname, a, kw), (k, f) in zip(ws, want):
                d = kw.get("data")
                src, chain = d, []
                while isinstance(src, VOpaque) and "bucket_key" not in src.info and len(chain) < 8:
                    if src.info.get("label") in ("rescaled", "np.array"):
                        chain.append(src.info["label"])
                        src = src.info.get("of")
                    elif src.info.get("fn") is not None:
                        chain.append("." + str(src.info["fn"].info.get("attr")))
                        src = src.info["fn"].info.get("of")
                    else:
                        break
                key = src.info.get("bucket_key") if isinstance(src, VOpaque) else None
                # lossless formats get the bucket itself; the 8-bit previews a rescaled copy of it
                shape_ok = chain == ([".astype", "rescaled", "np.array"] if f in ("png", "jpg", "jpeg") else ["np.array"])
                good = (shape_ok and not a and wname == WR[f] and kw.get("current_output_folder") is p.ex.hold["folder"] and isinstance(key, VStr) and key.v == k
                        and isinstance(kw.get("name"), VStr) and str(z3.simplify(z_str(kw["name"].v))).strip('"') == k and isinstance(kw.get("run_number"), VInt) and z3.eq(z_int(kw["run_number"].v), z3.Int("run_number")))
                if not good:
                    ok, detail = False, f"{k}/{f}: {wname}(name={kw.get('name')}, data = {' of '.join(chain)} of {getattr(key, 'v', key)})"
                    break
            u.oblige(p, f"save.method.one_write_per_bucket_and_format_from_that_bucket[{tag}]", bool(ok), {"detail": detail, "writes": len(ws)}, METHOD_REPLAY)
            rep = p.ex.hold.get("reported")
            rd = p.ex.try_dict(rep) if rep is not None else None
            got = {}
            for k, v in rd or []:
                inner = p.ex.try_dict(v)
                got[k.v] = {kk.v: str(z3.simplify(z_str(vv.v))).strip('"') if isinstance(vv, VStr) else None for kk, vv in inner or []}
            exp, i = {}, 0
            for k, fmts in req:
                for f in fmts:
                    exp.setdefault(k, {})[f] = f"name_of_written{i}"
                    i += 1
            u.oblige(p, f"save.method.reported_under_its_own_bucket_and_format[{tag}]", got == exp, {"got": str(got)[:300]}, METHOD_REPLAY)
        u.cover(f"save.method.cover[{tag}]", [1] * n_ret, lambda _: True)


# ---- one fresh directory per started simulation: Outputs.create_output_folder and its call in run_mode -------------------------------
RUNDIR_REPLAY = lambda w: {"code": """
import tempfile, pathlib, numpy as np, pyxel, verif_probes as VP
from pyxel.exposure import Exposure, Readout
from pyxel.outputs import ExposureOutputs
from pyxel.pipelines import DetectionPipeline, ModelFunction
root = pathlib.Path(tempfile.mkdtemp())
out = ExposureOutputs(output_folder=root, save_data_to_file=[{'detector.pixel.array': ['npy']}])
mode = Exposure(readout=Readout(times=[1.0]), outputs=out)
pipe = DetectionPipeline(charge_collection=[ModelFunction(func='verif_probes.writer', name='w', arguments={'pixel_add': 2.0})])
dirs, VIOLATED, DETAIL = [], False, 'every started simulation wrote into a directory of its own'
for k in range(3):
    pyxel.run_mode(mode=mode, detector=VP.detector(), pipeline=pipe)
    d = pathlib.Path(out.current_output_folder)
    files = sorted(p.name for p in d.iterdir())
    dirs.append(str(d))
    if not files:
        VIOLATED, DETAIL = True, f'simulation {k}: nothing written into {d}'; break
if len(set(dirs)) != 3:
    VIOLATED, DETAIL = True, f'three simulations started with the same outputs object wrote into {len(set(dirs))} director(ies): {sorted(set(dirs))}'
""", "expect": "each run_mode call with outputs creates and uses a fresh directory, also when the same Outputs object is reused"}


@unit("C19", "dir.per_run")
def dir_per_run(u: Unit):
    """Outputs.create_output_folder: whatever folder an EARLIER simulation left in the object, it calls create_output_directory (unit
    dir.fresh) with its own output folder and custom name and keeps the directory that call returned. run_mode: the call
    outputs.create_output_folder() is guarded by the presence of outputs only and precedes the dispatch on the running mode."""
    fi = u.fn(f"{OO}::Outputs.create_output_folder")
    oci = u.cls(f"{OO}::Outputs")
    cfg = mk_cfg()
    q = f"{OO}::create_output_directory"

    def mkdir_contract(ex, args, kwargs, fr):
        ex.hold["mk"] = (list(args), dict(kwargs))
        ex.hold["new"] = FSM.mk_path(ex, z3.String("fresh_directory"))
        return ex.hold["new"]
    cfg.contracts[q] = Contract(q, mkdir_contract, "dir.fresh")
    base_attr = cfg.lib_overrides.get(("opaque_attr", "path"))

    def setup(ex):
        ex.hold = {}
        ex.hold["folder"] = FSM.mk_path(ex, z3.String("output_folder"))
        earlier = FSM.mk_path(ex, z3.String("earlier_directory"))
        me = ex.st.alloc(HObj(oci, {"_output_folder": ex.hold["folder"], "_custom_dir_name": VStr(z3.String("custom_name")),
                                    "_current_output_folder": VMaybe(z3.Bool("used_before"), earlier)}))
        ex.me = me
        return [me], {}
    ps = u.paths(fi, setup, cfg, label="Outputs.create_output_folder")
    for p in ps:
        if p.kind != "return":
            u.oblige(p, "dir.per_run.no_raise", False, {"exc": p.exc_name()}, RUNDIR_REPLAY)
            continue
        h = p.ex.hold
        a, k = h.get("mk", ([], {}))
        folder = k.get("output_folder", a[0] if a else None)
        name = k.get("custom_dir_name", a[1] if len(a) > 1 else None)
        ok = "mk" in h and isinstance(folder, VOpaque) and folder.kind == "path" and isinstance(name, VStr)
        u.oblige(p, "dir.per_run.always_asks_for_a_fresh_directory", z3.And(zb(ok), FSM.path_text(folder) == FSM.path_text(h["folder"]), z_str(name.v) == z3.String("custom_name")) if ok else z3.BoolVal(False),
                 {"used_before": z3.Bool("used_before")}, RUNDIR_REPLAY)
        cur = p.st.cell(p.ex.me).fields.get("_current_output_folder")
        u.oblige(p, "dir.per_run.uses_the_directory_just_created", cur is h.get("new"), {"used_before": z3.Bool("used_before")}, RUNDIR_REPLAY)
    u.cover("dir.per_run.cover", ps, lambda p: p.kind == "return")
    # the call site in run_mode
    rm = u.fn("pyxel/run.py::run_mode")
    body = rm.node.body
    idx_call, guard, idx_match = None, None, None
    for i, st in enumerate(body):
        if isinstance(st, ast.If) and any(isinstance(n, ast.Call) and isinstance(n.func, ast.Attribute) and n.func.attr == "create_output_folder" for n in ast.walk(st)):
            idx_call, guard = i, st
        if isinstance(st, ast.Match) and idx_match is None:
            idx_match = i
    detail = "no top-level `if <outputs>: <outputs>.create_output_folder()` found"
    ok = False
    if guard is not None:
        t = guard.test
        plain = isinstance(t, ast.Name) or (isinstance(t, ast.Compare) and len(t.ops) == 1 and isinstance(t.ops[0], ast.IsNot) and isinstance(t.left, ast.Name)
                                            and isinstance(t.comparators[0], ast.Constant) and t.comparators[0].value is None)
        name = t.id if isinstance(t, ast.Name) else (t.left.id if plain else None)
        calls = [n for n in ast.walk(guard) if isinstance(n, ast.Call) and isinstance(n.func, ast.Attribute) and n.func.attr == "create_output_folder"]
        direct = len(guard.body) >= 1 and any(isinstance(s2, ast.Expr) and s2.value in calls for s2 in guard.body) and not guard.orelse
        same_obj = all(isinstance(c.func.value, ast.Name) and c.func.value.id == name for c in calls)
        ok = bool(plain and direct and same_obj and idx_match is not None and idx_call < idx_match)
        detail = f"guard `{ast.unparse(t)}`, call before the mode dispatch: {idx_match is not None and idx_call < idx_match}"
    if guard is None:
        # the call moved (a helper, another statement shape): not recognised -> undecided, the native scenario decides (stand-in)
        u.undecide("dir.per_run.run_mode_creates_the_folder_whenever_outputs_are_given", rm.qualname, detail)
    else:
        u.static("dir.per_run.run_mode_creates_the_folder_whenever_outputs_are_given", ok, rm.qualname, detail, replay=RUNDIR_REPLAY)


STANDIN = {r"dir\.per_run": RUNDIR_REPLAY, r"names|build\.names": NAMES_REPLAY}


# ---- bounded native audit: lossless formats read back bit-identically ---------------------------------------------------------------------
READBACK_AUDIT = lambda w: {"code": """
import numpy as np, tempfile, warnings
from pathlib import Path
from astropy.io import fits
from pyxel.outputs import utils as U
warnings.simplefilter('ignore')
VIOLATED, DETAIL = False, 'what the lossless writers put on disk reads back bit-identically; every writer returns the path it wrote'
d = Path(tempfile.mkdtemp())
arrays = [np.arange(6.0).reshape(2, 3) / 7.0, np.array([[1e-300, 1e300], [np.pi, -0.0]]), np.arange(12, dtype=np.uint16).reshape(3, 4), np.arange(6, dtype=np.uint64).reshape(2, 3) + 2 ** 40,
          np.arange(6, dtype=np.float32).reshape(3, 2) / 3]
for k, a in enumerate(arrays):
    for run in (None, 0, 7):
        kw = dict(current_output_folder=d, data=a, name=f'detector_image{k}', with_auto_suffix=run is not None, **({'run_number': run} if run is not None else {}))
        f = U.to_npy(**kw)
        back = np.load(f)
        if back.dtype != a.dtype or not np.array_equal(back, a) or back.tobytes() != a.tobytes():
            VIOLATED, DETAIL = True, f'npy: array {k} ({a.dtype}) read back as {back.dtype}, equal={np.array_equal(back, a)}'; break
        f = U.to_fits(**kw)
        back = fits.getdata(f)
        if not np.array_equal(np.asarray(back, dtype=a.dtype), a) or np.asarray(back).shape != a.shape:
            VIOLATED, DETAIL = True, f'fits: array {k} ({a.dtype}) read back as {np.asarray(back).dtype} {np.asarray(back).ravel()[:3]}'; break
        if run is not None and (not str(f).endswith(f'_{run + 1}.fits')):
            VIOLATED, DETAIL = True, f'run {run}: file name {f}'; break
    if VIOLATED: break
""", "expect": "to_npy and to_fits files read back with the same type, shape and bits (float64 extremes, uint16, uint64 beyond 2^32, float32)",
    "bound": "5 arrays x {no run number, run 0, run 7} x {npy, fits}", "function": "pyxel/outputs/utils.py"}
AUDITS = {"lossless.readback": READBACK_AUDIT}


def _run_mode_dispatch(u: Unit):
    """C09.run_mode_dispatch (imported late)"""
    from . import C09 as _C09
    return _C09.run_mode_dispatch(u)


unit("C19", "run_mode.dispatch")(_run_mode_dispatch)      # the output folder of a started simulation is created before its run


@unit("C19", "write.to_file_dispatch")
def to_file_dispatch(u: Unit):
    """to_file(out_format, ...): for each of the eight format names exactly ONE writer is called — the writer of that format (jpeg and jpg
    share one) — with the given folder, data, name, suffix switch and run number, and its result is returned; an unknown format raises
    KeyError before anything is written."""
    fi = u.fn(f"{OU}::to_file")
    table = {"fits": "to_fits", "hdf": "to_hdf", "npy": "to_npy", "txt": "to_txt", "csv": "to_csv", "png": "to_png", "jpg": "to_jpg", "jpeg": "to_jpg"}
    for fmt in list(table) + ["tiff"]:
        cfg = mk_cfg()
        rec = u.track({})
        for w in set(table.values()):
            q = f"{OU}::{w}"
            cfg.contracts[q] = Contract(q, lambda ex, args, kwargs, fr, w=w, rec=rec: (rec.setdefault("calls", []).append((w, list(args), dict(kwargs))), VOpaque("path", None, {"text": z3.StringVal("/written/by/" + w)}))[1], f"C19.write.*[{w}]")

        def setup(ex, fmt=fmt, rec=rec):
            rec.clear()
            h = ex.hold = {"folder": FSM.mk_path(ex, z3.String("folder")), "data": VOpaque("xr", None, {"label": "data"}), "name": VStr(z3.String("bucket_name"))}
            return [], {"out_format": VStr(fmt), "current_output_folder": h["folder"], "data": h["data"], "name": h["name"], "with_auto_suffix": VBool(z3.Bool("auto_suffix")), "run_number": VInt(z3.Int("run_number"))}
        ps = u.paths(fi, setup, cfg, label=f"to_file[{fmt}]")
        for p in ps:
            calls = rec.get("calls", [])
            if fmt not in table:
                u.oblige(p, f"write.to_file_dispatch[{fmt}].unknown_format_refused", p.kind == "raise" and p.exc_name() == "KeyError" and not calls, {"outcome": p.kind}, WRITE_REPLAY)
                continue
            ok = p.kind == "return" and len(calls) == 1 and calls[0][0] == table[fmt] and not calls[0][1]
            h = p.ex.hold
            kw = calls[0][2] if calls else {}
            fwd = ok and kw.get("current_output_folder") is h["folder"] and kw.get("data") is h["data"] and kw.get("name") is h["name"] and isinstance(kw.get("with_auto_suffix"), VBool) and isinstance(kw.get("run_number"), VInt)
            goal = z3.And(zb(bool(fwd)), z_bool(kw["with_auto_suffix"].v) == z3.Bool("auto_suffix"), z_int(kw["run_number"].v) == z3.Int("run_number")) if fwd else z3.BoolVal(False)
            u.oblige(p, f"write.to_file_dispatch[{fmt}].its_own_writer_with_the_given_arguments", goal, {"called": str([c[0] for c in calls])}, WRITE_REPLAY)
            u.oblige(p, f"write.to_file_dispatch[{fmt}].returns_the_writers_path", bool(ok and isinstance(p.value, VOpaque) and p.value.kind == "path" and "/written/by/" + table[fmt] in str(p.value.info.get("text"))), {}, WRITE_REPLAY)
        u.cover(f"write.to_file_dispatch.cover[{fmt}]", ps, lambda p: True)


# ---- the report of a sequential observation: every file name under the label of ITS format -------------------------------------------------
REPORT_REPLAY = lambda w: {"code": """
from pyxel.outputs.outputs import _dict_to_datatree
VIOLATED, DETAIL = False, 'every reported file name is listed under the bucket and the format it was written in'
for files in ({'detector.image.array': {'npy': 'img_1.npy', 'fits': 'img_1.fits'}, 'detector.pixel.array': {'txt': 'pix_1.txt', 'fits': 'pix_1.fits', 'npy': 'pix_1.npy'}},
              {'detector.signal.array': {'fits': 's.fits', 'npy': 's.npy'}}, {'detector.image.array': {'png': 'i.png'}}):
    dt = _dict_to_datatree(files)
    for bucket, per_format in files.items():
        name = bucket.removeprefix('detector.').removesuffix('.array')
        da = dt[f'/{name}/filename']
        got = {str(f): str(da.sel(data_format=f).values) for f in da['data_format'].values}
        if got != per_format:
            VIOLATED, DETAIL = True, f'{bucket}: written {per_format}, reported {got}'; break
    if VIOLATED: break
""", "expect": "_dict_to_datatree keeps each (format, file name) pair together", "function": "pyxel/outputs/outputs.py::_dict_to_datatree"}


@unit("C19", "report.labels")
def report_labels(u: Unit):
    """_dict_to_datatree ({bucket: {format: file name}} -> the /output node of a sequential observation; two buckets with two formats each,
    format names and file names symbolic, in any order): every DataArray handed to xarray pairs each file name with the label of ITS
    format -- the (label, file name) pairs over all arrays of a bucket are exactly the items of that bucket's dictionary."""
    fi = u.fn(f"{OO}::_dict_to_datatree")
    cfg = mk_cfg()
    hold = {}

    def setup(ex):
        st = ex.st
        buckets = []
        for b in ("detector.image.array", "detector.pixel.array"):
            fmts = [VStr(z3.String(f"{b}_format{i}")) for i in range(2)]
            names = [VStr(z3.String(f"{b}_file{i}")) for i in range(2)]
            st.assume(z3.And(fmts[0].v != fmts[1].v, names[0].v != names[1].v))
            buckets.append((b, fmts, names))
        hold["buckets"] = buckets
        d = st.alloc(HDict([(VStr(b), st.alloc(HDict(list(zip(fmts, names))))) for b, fmts, names in buckets]))
        return [], {"all_filenames": d}
    ps = u.paths(fi, setup, cfg, label="_dict_to_datatree")
    for p in ps:
        if p.kind != "return":
            u.oblige(p, "report.labels.no_raise", False, {"exc": p.exc_name()}, REPORT_REPLAY)
            continue
        pairs = []
        ok_shape = True
        for e in p.st.events:
            if e[0] == "lib_call" and e[1] == "xarray.DataArray":
                data = p.ex.try_list(e[2][0]) if e[2] else (p.ex.try_list(e[3].get("data")) if e[3].get("data") is not None else None)
                coords = p.ex.try_dict(e[3].get("coords")) if e[3].get("coords") is not None else None
                labels = None
                for k, v in (coords or []):
                    if isinstance(k, VStr) and k.v == "data_format":
                        labels = p.ex.try_list(v)
                if data is None or labels is None or len(data) != len(labels):
                    ok_shape = False
                    continue
                pairs += list(zip(labels, data))
        want = [(f, n) for _, fmts, names in hold["buckets"] for f, n in zip(fmts, names)]
        if not ok_shape or len(pairs) != len(want):
            u.undecide("report.labels.each_file_under_its_own_format", fi.qualname, f"unrecognised way of building the report ({len(pairs)} labelled entries found for {len(want)} files)")
            continue
        # every reported pair is one of the written pairs (labels are pairwise different inside a bucket, so this is a bijection)
        goal = z3.And(*[z3.Or(*[z3.And(z_str(l.v) == z_str(f.v), z_str(d.v) == z_str(n.v)) for f, n in want]) if isinstance(l, VStr) and isinstance(d, VStr) else z3.BoolVal(False) for l, d in pairs])
        u.oblige(p, "report.labels.each_file_under_its_own_format", goal, {}, REPORT_REPLAY)
    u.cover("report.labels.cover", ps, lambda p: p.kind == "return")


STANDIN = dict(globals().get("STANDIN", {}), **{r"report\.labels": REPORT_REPLAY})
