"""C14 — charge is accounted identically as arrays and as positioned clusters.

  view (statement): a cluster (n, y, x) contributes n to pixel (floor(y / ph), floor(x / pw)) iff that pixel exists.
  convert_df_to_array (+ nested numba kernel): loop invariant over a SYMBOLIC number of clusters at an arbitrary
      pixel g:  array[g] == binsum(k) := sum of n_j over clusters j < k whose pixel is g
      every subscript in the numba kernel is within the array (memory safety: numba does not check bounds)
      a cluster outside the sensitive area changes no pixel (consequence of the binsum spec)
  add_charge_array (no clusters present): array' == array + a, everything else unchanged
  pixel centres: floor(((r + 1/2) ph) / ph) == r, same for columns (array -> clusters conversion is faithful)
  empty(): array all zero, no clusters
  array_to_df: cluster m = the m-th positive pixel of the row-major flattened array, positioned at that pixel's centre, carrying its charge
  mixed.routing: add_charge_array onto clusters / add_charge_dataframe onto a non-zero array convert with the detector's own geometry and
      concatenate old-then-new; nothing is dropped; ids advance by the number of new clusters
"""
from __future__ import annotations

from pyvc import arrays
from .common import *  # noqa: F401,F403
from . import detmodel as D

CH = "pyxel/data_structure/charge.py"
GEO = "pyxel/detectors/geometry.py"
BOUNDED = {
    r'array\.current': 'histories read / edit / read of one cluster table (symbolic content and size)',
}      # unit-name / obligation-name patterns -> the family these obligations are proved for
TRUSTED = ["pandas: df[col].values yields the column in row order (get_frame_values is a boundary contract)", "A-NUMBA",
           "np.floor_divide = floor(a/b) in exact arithmetic (one-ulp effects at exact pixel borders ignored)",
           "np.where(mask) enumerates every true index exactly once, in increasing order; pandas concat keeps the rows of its parts in order; create_charges builds the table from "
           "its columns (boundaries); the step from 'one cluster per positive pixel, at its centre, with its charge' to 'binning the clusters reproduces the array' is arithmetic "
           "on a bijection and is not re-derived by the solver"]
R, C_ = D.ROWS, D.COLS
G = D.GEN
M = z3.Int("n_clusters")
NUM = z3.Function("cl_number", z3.IntSort(), z3.RealSort())
YV = z3.Function("cl_pos_ver", z3.IntSort(), z3.RealSort())
XH = z3.Function("cl_pos_hor", z3.IntSort(), z3.RealSort())
PH, PW = z3.Real("pixel_vert_size"), z3.Real("pixel_horz_size")
_k = z3.Int("k")
binsum = z3.RecFunction("binsum", z3.IntSort(), z3.RealSort())
z3.RecAddDefinition(binsum, [_k], z3.If(_k <= 0, z3.RealVal(0), binsum(_k - 1) + z3.If(
    z3.And(z3.ToInt(YV(_k - 1) / PH) == G[0], z3.ToInt(XH(_k - 1) / PW) == G[1]), NUM(_k - 1), z3.RealVal(0))))

BIN_REPLAY = lambda w: {"code": """
import numpy as np, verif_probes as VP
det = VP.detector(rows=3, cols=4)     # pixels are 1 um x 1 um
ch = det.charge
def add(n, y, x):
    k = len(n)
    ch.add_charge(particle_type='e', particles_per_cluster=np.array(n, float), init_energy=np.zeros(k), init_ver_position=np.array(y, float),
                  init_hor_position=np.array(x, float), init_z_position=np.zeros(k), init_ver_velocity=np.zeros(k), init_hor_velocity=np.zeros(k), init_z_velocity=np.zeros(k))
add([10.0, 5.0, 7.0], [0.5, 1.0, 2.999], [0.5, 3.0, 0.0])        # inside: pixels (0,0), (1,3), (2,0)
add([100.0, 200.0], [-0.5, 1.5], [1.5, -2.5])                     # outside (negative coordinates)
expected = np.zeros((3, 4)); expected[0, 0] = 10; expected[1, 3] = 5; expected[2, 0] = 7
try:
    got = ch.array
    VIOLATED = not np.array_equal(got, expected)
    DETAIL = 'charge array with two clusters outside the sensitive area: ' + repr(got.tolist())
except Exception as e:
    VIOLATED, DETAIL = False, 'rejected: ' + repr(e)
""", "expect": "clusters are credited to floor(position / pixel size); clusters outside change no pixel"}


def get_frame_values_contract():
    q = f"{CH}::Charge.get_frame_values"

    def apply(ex, args, kwargs, fr):
        quantity = kwargs.get("quantity", args[1] if len(args) > 1 else None)
        f = {"number": NUM, "position_ver": YV, "position_hor": XH}.get(quantity.v if isinstance(quantity, VStr) else None)
        if f is None:
            raise Unsupported("get_frame_values of this quantity")
        return ex.st.alloc(HArr((M,), VDtype("float64"), lambda ix, f=f: VFloat(f(z_int(ix[0])))))
    return Contract(q, apply, "column of the cluster table in row order (pandas boundary)")


def bin_loop_spec():
    def arr(ex, fr):
        return ex.st.cell(fr.locals["array"])

    def hav(ex, fr, k):
        f = z3.Function(ex.st.fresh_name("binned"), z3.IntSort(), z3.IntSort(), z3.RealSort())
        arr(ex, fr).elem = lambda ix, f=f: VFloat(f(z_int(ix[0]), z_int(ix[1])))

    def inv(ex, fr, k):
        return {"binsum": to_real(arr(ex, fr).elem(G)) == binsum(k),
                "shape": z3.And(z_int(arr(ex, fr).shape[0]) == R, z_int(arr(ex, fr).shape[1]) == C_)}
    return LoopSpec("(i, charge_value) in enumerate(charge_per_pixel)", inv, havoc=hav, modifies=lambda ex, fr: [fr.locals["array"].addr], name="bin.loop")


@unit("C14", "bin")
def bin_unit(u: Unit):
    fi = u.fn(f"{CH}::Charge.convert_df_to_array")
    cfg = D.install(Cfg("real"))
    c = get_frame_values_contract()
    cfg.contracts[c.qualname] = c
    cfg.loops[(f"{CH}::df_to_array", 0)] = bin_loop_spec()
    u.internal_replay, u.internal_witness = BIN_REPLAY, {}

    def setup(ex):
        det = D.mk_detector(ex, u)
        st = ex.st
        st.assume(z3.And(M >= 0, PH > 0, PW > 0))
        geo = st.cell(ex.det_parts["geo"])
        geo.fields["_pixel_vert_size"], geo.fields["_pixel_horz_size"] = VFloat(PH), VFloat(PW)
        q = z3.Int("q")
        st.assume(z3.ForAll([q], NUM(q) >= 0))
        return [ex.det_parts["charge"]], {}
    ps = u.paths(fi, setup, cfg, label="Charge.convert_df_to_array")
    for p in ps:
        if p.kind != "return" or not p.ex.is_arr(p.value):
            u.oblige(p, "bin.returns_array", False, {"exc": p.exc_name()}, BIN_REPLAY)
            continue
        out = p.st.cell(p.value)
        u.oblige(p, "add_clusters.view", z3.And(to_real(out.elem(G)) == binsum(M), z_int(out.shape[0]) == R, z_int(out.shape[1]) == C_), {}, BIN_REPLAY)
    u.cover("bin.cover", ps, lambda p: p.kind == "return")
    # a cluster outside the sensitive area contributes to no pixel: consequence of the spec, stated as a lemma
    j = z3.Int("j_outside")
    outside = z3.Or(YV(j) < 0, XH(j) < 0, YV(j) >= z3.ToReal(R) * PH, XH(j) >= z3.ToReal(C_) * PW)
    hyp = [PH > 0, PW > 0, R > 0, C_ > 0, G[0] >= 0, G[0] < R, G[1] >= 0, G[1] < C_, j >= 0, outside]
    u.oblige(None, "outside.ignored", binsum(j + 1) == binsum(j), {}, BIN_REPLAY, fnq=fi.qualname, hyps=hyp)


ALIAS_REPLAY = lambda w: {"code": """
import numpy as np, verif_probes as VP
VIOLATED, DETAIL = False, 'the charge container keeps its own buffer'
for history in ('fresh', 'after reset'):
    det = VP.detector(rows=3, cols=4)
    if history == 'after reset':
        det.charge.add_charge_array(np.full((3, 4), 9.0)); det.charge.empty()
    buf = np.full((3, 4), 5.0)
    det.charge.add_charge_array(buf)
    buf[:] = 3.0                                  # the caller re-uses its work buffer
    if not np.array_equal(det.charge.array, np.full((3, 4), 5.0)):
        VIOLATED, DETAIL = True, f'{history}: refilling the array handed to add_charge_array changed the stored charge to {det.charge.array[0, 0]}'; break
    frame = np.full((3, 4), 2.0)
    det.charge.empty(); [det.charge.add_charge_array(frame) for _ in range(3)]
    if not np.array_equal(det.charge.array, np.full((3, 4), 6.0)) or not np.array_equal(frame, np.full((3, 4), 2.0)):
        VIOLATED, DETAIL = True, f'{history}: the same frame added three times gives {det.charge.array[0, 0]} (caller frame now {frame[0, 0]})'; break
""", "expect": "add_charge_array copies into the container's own buffer: later changes of the caller's array do not change the charge"}


@unit("C14", "add_array")
def add_array(u: Unit):
    fi = u.fn(f"{CH}::Charge.add_charge_array")
    u.fn(f"{CH}::Charge.validate_type")
    u.fn(f"{CH}::Charge.validate_shape")
    cfg = D.install(Cfg("real"))
    rp = lambda w: {"code": """
import numpy as np, verif_probes as VP
det = VP.detector(rows=3, cols=4)
a, b = np.arange(12.0).reshape(3, 4), np.full((3, 4), 2.0)
det.charge.add_charge_array(a); det.charge.add_charge_array(b)
VIOLATED = not np.array_equal(det.charge.array, a + b)
DETAIL = 'after two array additions: ' + repr(det.charge.array.tolist())
""", "expect": "array additions accumulate element-wise"}
    holder = {}

    def setup(ex):
        det = D.mk_detector(ex, u)
        st = ex.st
        st.cell(ex.det_parts["charge"]).fields["_frame"] = D.df_obj(ex, z3.IntVal(0))
        ex.old = D.frame_elem(st, st.cell(ex.det_parts["charge"]).fields["_array"])
        f = z3.Function("added", z3.IntSort(), z3.IntSort(), z3.RealSort())
        holder["f"] = f
        a = st.alloc(HArr((R, C_), VDtype("float64"), lambda ix: VFloat(f(z_int(ix[0]), z_int(ix[1])))))
        ex.arg_ref, ex.arg_elem = a, st.cell(a).elem
        return [ex.det_parts["charge"], a], {}
    ps = u.paths(fi, setup, cfg, label="Charge.add_charge_array")
    for p in ps:
        if p.kind != "return":
            u.oblige(p, "add_array.no_raise", False, {}, rp)
            continue
        ch = p.st.cell(p.ex.det_parts["charge"]).fields
        u.oblige(p, "add_array.view", z3.And(D.frame_elem(p.st, ch["_array"]) == p.ex.old + holder["f"](*G), ch["_frame"].info["nrows"] == 0), {}, rp)
        # ownership: the container keeps its OWN buffer (what the caller does with its array afterwards cannot change the charge) and the
        # caller's array is not written
        stored = ch["_array"]
        own = isinstance(stored, VRef) and stored.addr != p.ex.arg_ref.addr and not (p.st.cell(stored).tag and p.st.cell(stored).tag[0] == "view" and p.st.cell(stored).tag[1] == p.ex.arg_ref.addr)
        u.oblige(p, "add_array.keeps_its_own_buffer", bool(own) and p.st.cell(p.ex.arg_ref).elem is p.ex.arg_elem, {}, ALIAS_REPLAY)
    u.cover("add_array.cover", ps, lambda p: p.kind == "return")
    # wrong shape / dtype is refused and changes nothing
    for bad in ("shape", "dtype"):
        def setup_bad(ex, bad=bad):
            det = D.mk_detector(ex, u)
            st = ex.st
            st.cell(ex.det_parts["charge"]).fields["_frame"] = D.df_obj(ex, z3.IntVal(0))
            ex.old_ref = st.cell(ex.det_parts["charge"]).fields["_array"]
            ex.old_elem = st.cell(ex.old_ref).elem
            shape = (z3.Int("bad_r"), z3.Int("bad_c")) if bad == "shape" else (R, C_)
            if bad == "shape":
                st.assume(z3.And(shape[0] >= 0, shape[1] >= 0, z3.Or(shape[0] != R, shape[1] != C_)))
            a = st.alloc(HArr(shape, VDtype("float64" if bad == "shape" else "int32"), lambda ix: VFloat(z3.RealVal(1))))
            return [ex.det_parts["charge"], a], {}
        for p in u.paths(fi, setup_bad, cfg, label=f"Charge.add_charge_array[bad {bad}]"):
            ch = p.st.cell(p.ex.det_parts["charge"]).fields
            same = isinstance(ch["_array"], VRef) and ch["_array"].addr == p.ex.old_ref.addr and p.st.cell(ch["_array"]).elem is p.ex.old_elem
            u.oblige(p, f"add_array.refuses_bad_{bad}", bool(p.kind == "raise" and same), {}, rp)


@unit("C14", "centres")
def centres(u: Unit):
    """Pixel-centre positions used when an array is converted to clusters map back to the same pixel."""
    fv = u.fn(f"{GEO}::get_vertical_pixel_center_pos")
    fh = u.fn(f"{GEO}::get_horizontal_pixel_center_pos")
    rp = lambda w: {"code": """
import numpy as np
from pyxel.detectors.geometry import get_vertical_pixel_center_pos as gv, get_horizontal_pixel_center_pos as gh
rows, cols, ph, pw = 3, 4, 2.5, 0.7
v, h = gv(num_rows=rows, num_cols=cols, pixel_vertical_size=ph), gh(num_rows=rows, num_cols=cols, pixel_horizontal_size=pw)
rr, cc = np.divmod(np.arange(rows * cols), cols)
VIOLATED = not (np.array_equal(np.floor_divide(v, ph).astype(int), rr) and np.array_equal(np.floor_divide(h, pw).astype(int), cc))
DETAIL = 'centre rows ' + repr(np.floor_divide(v, ph).tolist()) + ' cols ' + repr(np.floor_divide(h, pw).tolist())
""", "expect": "pixel centres fall in their own pixel"}
    j = z3.Int("flat_index")
    for name, fi, size, kwname, want in (("vertical", fv, PH, "pixel_vertical_size", lambda j: j / C_), ("horizontal", fh, PW, "pixel_horizontal_size", lambda j: j % C_)):
        def setup(ex, size=size, kwname=kwname):
            ex.st.assume(z3.And(R > 0, C_ > 0, size > 0, j >= 0, j < R * C_))
            return [], {"num_rows": VInt(R), "num_cols": VInt(C_), kwname: VFloat(size)}
        ps = u.paths(fi, setup, Cfg("real"), label=fi.name)
        for p in ps:
            if p.kind != "return" or not p.ex.is_arr(p.value):
                u.oblige(p, f"centres.{name}.returns", False, {}, rp)
                continue
            c = p.st.cell(p.value)
            pos = to_real(c.elem((j,)))
            idx = want(j)
            # centre of pixel idx: (idx + 1/2) * size, whose floor-division by size is idx (size > 0)
            u.oblige(p, f"mixed.centre_position[{name}]", z3.And(z_int(c.shape[0]) == R * C_, pos == (z3.ToReal(idx) + z3.RealVal("1/2")) * size), {}, rp)
        u.cover(f"centres.cover[{name}]", ps, lambda p: p.kind == "return")
    x, s_ = z3.Int("pix"), z3.Real("size")
    u.oblige(None, "mixed.centre_maps_back", z3.ToInt(((z3.ToReal(x) + z3.RealVal("1/2")) * s_) / s_) == x, {}, rp, fnq=fv.qualname, hyps=[s_ > 0, x >= 0])


EMPTY_REPLAY = lambda w: {"code": """
import numpy as np, pandas as pd, verif_probes as VP
VIOLATED, DETAIL = False, 'a reset returns the charge to zero whatever history filled it'
def total(det): return float(np.sum(det.charge.array))
# history 1: clusters added one by one;  history 2: an array, then a cluster batch of length zero (the array is folded into the table while
# the cluster counter stays 0);  history 3: the table restored directly (as Detector.from_dict does)
for name in ('clusters', 'array then empty batch', 'restored table'):
    det = VP.detector()
    if name == 'clusters':
        det.charge.add_charge(particle_type='e', particles_per_cluster=np.array([5.0, 7.0]), init_energy=np.zeros(2), init_ver_position=np.array([0.5, 1.5]), init_hor_position=np.array([0.5, 2.5]),
                              init_z_position=np.zeros(2), init_ver_velocity=np.zeros(2), init_hor_velocity=np.zeros(2), init_z_velocity=np.zeros(2))
    elif name == 'array then empty batch':
        det.charge.add_charge_array(np.full((3, 4), 2.0))
        det.charge.add_charge(particle_type='e', particles_per_cluster=np.array([]), init_energy=np.array([]), init_ver_position=np.array([]), init_hor_position=np.array([]),
                              init_z_position=np.array([]), init_ver_velocity=np.array([]), init_hor_velocity=np.array([]), init_z_velocity=np.array([]))
    else:
        other = VP.detector()
        other.charge.add_charge(particle_type='e', particles_per_cluster=np.array([5.0]), init_energy=np.zeros(1), init_ver_position=np.array([0.5]), init_hor_position=np.array([0.5]),
                                init_z_position=np.zeros(1), init_ver_velocity=np.zeros(1), init_hor_velocity=np.zeros(1), init_z_velocity=np.zeros(1))
        det.charge._frame = other.charge.frame.copy()
    before = total(det)
    det.charge.empty()
    after = total(det)
    det.charge.add_charge_array(np.full((3, 4), 1.0))
    later = total(det)
    if before <= 0 or after != 0.0 or later != 12.0 or len(det.charge.frame) not in (0,):
        VIOLATED, DETAIL = True, f'history "{name}": total charge {before} before the reset, {after} after it, {later} after adding 12 e- to the reset detector (table rows {len(det.charge.frame)})'; break
""", "expect": "after Charge.empty() the charge array is zero and the cluster table is empty, for every way the charge got there"}


@unit("C14", "empty")
def empty(u: Unit):
    fi = u.fn(f"{CH}::Charge.empty")
    cfg = D.install(Cfg("real"))

    def setup(ex):
        D.mk_detector(ex, u)
        return [ex.det_parts["charge"]], {}
    ps = u.paths(fi, setup, cfg, label="Charge.empty")
    for p in ps:
        ch = p.st.cell(p.ex.det_parts["charge"]).fields
        u.oblige(p, "empty.zero", z3.And(zb(p.kind == "return"), D.frame_elem(p.st, ch["_array"]) == 0, ch["_frame"].info["nrows"] == 0), {}, EMPTY_REPLAY)
    u.cover("empty.cover", ps, lambda p: p.kind == "return")


# ---- array -> clusters conversion (interleaving of array additions and cluster additions) ---------------------------
MIXED_REPLAY = lambda w: {"code": """
import numpy as np, verif_probes as VP
VIOLATED, DETAIL = False, 'array charge converted to clusters stays in its own pixel'
for rows, cols, pv, ph in ((3, 5, 1.0, 1.0), (6, 4, 10.0, 20.0), (4, 4, 18.0, 12.0), (2, 7, 0.5, 3.0)):
    det = VP.detector(rows=rows, cols=cols, pixel_vert_size=pv, pixel_horz_size=ph)
    ch = det.charge
    a = np.arange(rows * cols, dtype=float).reshape(rows, cols) + 1.0
    a[0, 0] = 0.0
    ch.add_charge_array(a.copy())
    k = 1
    ch.add_charge(particle_type='e', particles_per_cluster=np.array([100.0]), init_energy=np.zeros(k), init_ver_position=np.array([0.5 * pv]), init_hor_position=np.array([1.5 * ph]),
                  init_z_position=np.zeros(k), init_ver_velocity=np.zeros(k), init_hor_velocity=np.zeros(k), init_z_velocity=np.zeros(k))
    want = a.copy(); want[0, 1] += 100.0
    got = ch.array
    if not np.array_equal(got, want):
        VIOLATED, DETAIL = True, f'{rows}x{cols}: array then one cluster: total {got.sum()} expected {want.sum()}; differing pixels {np.argwhere(got != want)[:4].tolist()}'
        break
    det2 = VP.detector(rows=rows, cols=cols, pixel_vert_size=pv, pixel_horz_size=ph)
    c2 = det2.charge
    c2.add_charge(particle_type='e', particles_per_cluster=np.array([100.0]), init_energy=np.zeros(k), init_ver_position=np.array([0.5 * pv]), init_hor_position=np.array([1.5 * ph]),
                  init_z_position=np.zeros(k), init_ver_velocity=np.zeros(k), init_hor_velocity=np.zeros(k), init_z_velocity=np.zeros(k))
    c2.add_charge_array(a.copy())
    got2 = c2.array
    if not np.array_equal(got2, want):
        VIOLATED, DETAIL = True, f'{rows}x{cols}: one cluster then array: total {got2.sum()} expected {want.sum()}; differing pixels {np.argwhere(got2 != want)[:4].tolist()}'
        break
if not VIOLATED:
    # a stored array with entries of both signs whose total is not positive (zero-mean map, +q / -q): its non-negative entries survive the first cluster
    for a in (np.array([[5.0, -7.0, 0.0], [1.0, -1.0, 0.0]]), np.array([[2.0, -2.0, 0.0], [0.0, 0.0, 0.0]]), np.array([[0.5, 0.25, -3.0], [0.0, 1.0, -1.0]])):
        det = VP.detector(rows=2, cols=3)
        det.charge.add_charge_array(a.copy())
        det.charge.add_charge(particle_type='e', particles_per_cluster=np.array([100.0]), init_energy=np.zeros(1), init_ver_position=np.array([1.5]), init_hor_position=np.array([2.5]),
                              init_z_position=np.zeros(1), init_ver_velocity=np.zeros(1), init_hor_velocity=np.zeros(1), init_z_velocity=np.zeros(1))
        want = np.clip(a, 0.0, None); want[1, 2] += 100.0
        if not np.array_equal(det.charge.array, want):
            VIOLATED, DETAIL = True, f'array {a.tolist()} (total {a.sum()}) then one cluster of 100 in pixel (1, 2): charge {det.charge.array.tolist()}, expected {want.tolist()}'; break
""", "expect": "per-pixel charge = sum of everything (non-negative) added, whatever the interleaving of arrays and clusters"}


@unit("C14", "array_to_df")
def array_to_df(u: Unit):
    """Charge.convert_array_to_df: cluster m stands for the m-th positive pixel q_m of the row-major flattened array
    (np.where contract): its number is the pixel's charge and its position is the CENTRE of pixel (q_m // cols, q_m % cols).
    With `mixed.centre_maps_back` and the binning contract of convert_df_to_array, converting an array to clusters and back
    gives the same per-pixel charge (each positive pixel is enumerated exactly once: np.where contract, trusted)."""
    fi = u.fn(f"{CH}::Charge.convert_array_to_df")
    cfg = Cfg("real")
    rec = {}
    q = f"{CH}::Charge.create_charges"
    cfg.contracts[q] = Contract(q, lambda ex, args, kwargs, fr: (rec.update(kw=dict(kwargs)), VOpaque("df", None, {"nrows": z3.Int("n_new"), "label": "new clusters"}))[1], "builds the cluster table from its columns (pandas boundary)")
    A = z3.Function("charge_in", z3.IntSort(), z3.IntSort(), z3.RealSort())
    gm = z3.Int("g_m")

    def setup(ex):
        rec.clear()
        ex.st.assume(z3.And(R > 0, C_ > 0, PH > 0, PW > 0, gm >= 0))
        ex.st.ghost.setdefault("generic", []).append((gm,))
        arr = ex.st.alloc(HArr((R, C_), VDtype("float64"), lambda ix: VFloat(A(z_int(ix[0]), z_int(ix[1])))))
        return [], {"array": arr, "num_rows": VInt(R), "num_cols": VInt(C_), "pixel_vertical_size": VFloat(PH), "pixel_horizontal_size": VFloat(PW)}
    ps = u.paths(fi, setup, cfg, label="Charge.convert_array_to_df")
    for p in ps:
        if p.kind != "return":
            u.oblige(p, "mixed.array_to_df.no_raise", False, {"exc": p.exc_name()}, MIXED_REPLAY)
            continue
        kw = rec.get("kw", {})
        cols = {k: kw.get(k) for k in ("particles_per_cluster", "init_ver_position", "init_hor_position")}
        if not all(p.ex.is_arr(v) for v in cols.values()):
            u.oblige(p, "mixed.array_to_df.columns", False, {}, MIXED_REPLAY)
            continue
        num, ver, hor = (p.st.cell(cols[k]) for k in ("particles_per_cluster", "init_ver_position", "init_hor_position"))
        n = z_int(num.shape[0])
        # the m-th positive flat index, recovered from the number column's provenance: number[m] = flat[W(m)]
        wtag = [c for c in p.st.heap.values() if isinstance(c, HArr) and c.tag and c.tag[0] == "where"]
        if len(wtag) != 1:
            u.oblige(p, "mixed.array_to_df.enumerates_positive_pixels", False, {}, MIXED_REPLAY)
            continue
        W, Mn = wtag[0].tag[1], wtag[0].tag[2]
        qm = W(gm)
        row, col = qm / C_, qm % C_
        inr = z3.And(gm >= 0, gm < Mn)
        half = z3.RealVal("1/2")
        u.oblige(p, "mixed.array_to_df.one_cluster_per_positive_pixel", z3.And(n == Mn, z_int(ver.shape[0]) == Mn, z_int(hor.shape[0]) == Mn), {}, MIXED_REPLAY)
        u.oblige(p, "mixed.array_to_df.number_is_the_pixel_charge", z3.Implies(inr, z3.And(to_real(num.elem((gm,))) == A(row, col), A(row, col) > 0)), {"flat_index": qm, "cols": C_, "rows": R}, MIXED_REPLAY,
                 info={"small": [R, C_, gm]})
        u.oblige(p, "mixed.array_to_df.position_is_the_pixel_centre", z3.Implies(inr, z3.And(to_real(ver.elem((gm,))) == (z3.ToReal(row) + half) * PH,
                                                                                         to_real(hor.elem((gm,))) == (z3.ToReal(col) + half) * PW)),
                 {"flat_index": qm, "cols": C_, "rows": R}, MIXED_REPLAY, info={"small": [R, C_, gm]})
    u.cover("mixed.array_to_df.cover", ps, lambda p: p.kind == "return")


@unit("C14", "mixed.routing")
def mixed_routing(u: Unit):
    """Interleavings: add_charge_array while clusters exist converts THAT array (with the detector's own rows, columns and
    pixel sizes) and appends it to the cluster table; add_charge_dataframe on a clusterless, non-zero array first converts the
    stored array the same way and concatenates (old first, new last); with clusters present it appends; nothing is dropped."""
    fa, fd = u.fn(f"{CH}::Charge.add_charge_array"), u.fn(f"{CH}::Charge.add_charge_dataframe")
    cq = f"{CH}::Charge.convert_array_to_df"

    def mk_cfg():
        cfg = D.install(Cfg("real"))
        base_attr = cfg.lib_overrides[("opaque_attr", "df")]
        cfg.lib_overrides[("opaque_attr", "df")] = lambda ex, obj, name, fr: VTuple([VStr("number"), VStr("position_ver")]) if name == "columns" else base_attr(ex, obj, name, fr)
        cfg.contracts[cq] = Contract(cq, lambda ex, args, kwargs, fr: (ex.hold.setdefault("conv", []).append(dict(kwargs)), VOpaque("df", ex.st.fresh_int("df"), {"nrows": ex.st.fresh_int("n_conv"), "type": "pandas.DataFrame", "label": "converted"}))[1],
                                    "C14.array_to_df")
        cfg.lib_overrides["pandas.concat"] = lambda ex, f, args, kwargs, fr: (ex.hold.setdefault("concat", []).append((p_list(ex, args[0]), dict(kwargs))),
                                                                              VOpaque("df", ex.st.fresh_int("df"), {"nrows": sum_rows(ex, args[0]), "type": "pandas.DataFrame", "label": "concat", "parts": p_list(ex, args[0])}))[1]
        return cfg

    def p_list(ex, v):
        return list(ex.try_list(v) or [])

    def sum_rows(ex, v):
        t = z3.IntVal(0)
        for x in p_list(ex, v):
            t = t + z_int(x.info["nrows"])
        return t

    def geo_ok(ex, kw, arr):
        g = ex.st.cell(ex.det_parts["geo"]).fields
        return (kw.get("array") is arr and isinstance(kw.get("num_rows"), VInt) and z3.eq(z_int(kw["num_rows"].v), R) and isinstance(kw.get("num_cols"), VInt) and z3.eq(z_int(kw["num_cols"].v), C_)
                and kw.get("pixel_vertical_size") is g["_pixel_vert_size"] and kw.get("pixel_horizontal_size") is g["_pixel_horz_size"])
    rp = MIXED_REPLAY
    # add_charge_array with clusters present
    cfg = mk_cfg()
    aq = f"{CH}::Charge.add_charge_dataframe"
    cfg.contracts[aq] = Contract(aq, lambda ex, args, kwargs, fr: (ex.hold.setdefault("added", []).append(args[1] if len(args) > 1 else kwargs.get("new_charges")), NONE)[1], "C14.mixed.routing[dataframe]")

    def setup_a(ex):
        D.mk_detector(ex, u)
        ex.hold = {}
        st = ex.st
        g = st.cell(ex.det_parts["geo"]).fields
        g["_pixel_vert_size"], g["_pixel_horz_size"] = VFloat(PH), VFloat(PW)
        st.assume(z3.And(PH > 0, PW > 0))
        st.assume(z3.Int("n_existing") > 0)
        st.cell(ex.det_parts["charge"]).fields["_frame"] = D.df_obj(ex, z3.Int("n_existing"))
        ex.hold["old_array"] = st.cell(ex.det_parts["charge"]).fields["_array"]
        a = st.alloc(HArr((R, C_), VDtype("float64"), lambda ix: VFloat(z3.Function("added", z3.IntSort(), z3.IntSort(), z3.RealSort())(z_int(ix[0]), z_int(ix[1])))))
        ex.hold["given"] = a
        return [ex.det_parts["charge"], a], {}
    ps = u.paths(fa, setup_a, cfg, label="add_charge_array[clusters present]")
    for p in ps:
        if p.kind != "return":
            u.oblige(p, "mixed.routing[array onto clusters].no_raise", False, {"exc": p.exc_name()}, rp)
            continue
        h = p.ex.hold
        conv, added = h.get("conv", []), h.get("added", [])
        ok = len(conv) == 1 and geo_ok(p.ex, conv[0], h["given"]) and len(added) == 1 and isinstance(added[0], VOpaque) and added[0].info.get("label") == "converted"
        u.oblige(p, "mixed.routing[array onto clusters]", bool(ok), {}, rp)
        u.oblige(p, "mixed.routing[array onto clusters].array_untouched", bool(p.st.cell(p.ex.det_parts["charge"]).fields["_array"] is h["old_array"]), {}, rp)
    u.cover("mixed.routing.cover[array]", ps, lambda p: p.kind == "return")
    # add_charge_dataframe in its three situations
    for tag in ("no clusters, array non-zero", "no clusters, array zero", "clusters present"):
        cfg = mk_cfg()

        def setup_d(ex, tag=tag):
            D.mk_detector(ex, u)
            ex.hold = {}
            st = ex.st
            g = st.cell(ex.det_parts["geo"]).fields
            g["_pixel_vert_size"], g["_pixel_horz_size"] = VFloat(PH), VFloat(PW)
            st.assume(z3.And(PH > 0, PW > 0))
            ch = st.cell(ex.det_parts["charge"]).fields
            if tag == "clusters present":
                st.assume(z3.Int("n_existing") > 0)
                ch["_frame"] = D.df_obj(ex, z3.Int("n_existing"))
            else:
                ch["_frame"] = D.df_obj(ex, z3.IntVal(0))
                if tag.endswith("zero") and not tag.endswith("non-zero"):
                    ch["_array"] = arrays.const_array(ex, (R, C_), VDtype("float64"), VInt(0))
            ex.hold["old_frame"], ex.hold["old_array"] = ch["_frame"], ch["_array"]
            ex.hold["nextid"] = ch["nextid"]
            new = VOpaque("df", st.fresh_int("df"), {"nrows": z3.Int("n_new"), "type": "pandas.DataFrame", "label": "new"})
            st.assume(z3.Int("n_new") >= 0)
            ch["columns"] = VTuple([VStr("number"), VStr("position_ver")])
            ex.hold["new"] = new
            return [ex.det_parts["charge"], new], {}
        ps = u.paths(fd, setup_d, cfg, label=f"add_charge_dataframe[{tag}]")
        for p in ps:
            if p.kind != "return":
                u.oblige(p, f"mixed.routing[{tag}].no_raise", False, {"exc": p.exc_name()}, rp)
                continue
            h = p.ex.hold
            ch = p.st.cell(p.ex.det_parts["charge"]).fields
            conv, cc = h.get("conv", []), h.get("concat", [])
            frame = ch["_frame"]
            if tag == "clusters present":
                ok = not conv and len(cc) == 1 and len(cc[0][0]) == 2 and cc[0][0][0] is h["old_frame"] and cc[0][0][1] is h["new"] and frame.info.get("label") == "concat"
            elif tag.endswith("non-zero"):
                # the stored array may or may not be all zero on this path: either the conversion route or the plain route
                if conv:
                    ok = len(conv) == 1 and geo_ok(p.ex, conv[0], h["old_array"]) and len(cc) == 1 and len(cc[0][0]) == 2 and cc[0][0][0].info.get("label") == "converted" and cc[0][0][1] is h["new"] \
                        and frame.info.get("label") == "concat"
                else:
                    ok = frame is h["new"]
                    # the stored array is dropped on this route: allowed only when EVERY entry is zero (whatever the signs of the others)
                    g = (D.GEN[0], D.GEN[1])
                    u.oblige(p, f"mixed.routing[{tag}].array_dropped_only_if_all_zero", to_real(p.st.cell(h["old_array"]).elem(g)) == 0,
                             {"stored array": "not all zero (entries of both signs allowed)", "route": "stored array not converted"}, rp)
            else:
                ok = not conv and not cc and frame is h["new"]
            u.oblige(p, f"mixed.routing[{tag}]", bool(ok), {}, rp)
            u.oblige(p, f"mixed.routing[{tag}].ids_advance", z_int(int_of(ch["nextid"])) == z_int(int_of(h["nextid"])) + z3.Int("n_new"), {}, rp)
        u.cover(f"mixed.routing.cover[{tag}]", ps, lambda p: p.kind == "return")


# ---- clusters handed in one by one: Charge.create_charges / Charge.add_charge -----------------------------------------------------------
CLUSTER_REPLAY = lambda w: {"code": """
import numpy as np, verif_probes as VP
VIOLATED, DETAIL = False, 'each cluster is counted once, in the pixel under its own (vertical, horizontal) position'
det = VP.detector(rows=3, cols=5)          # pixel pitch 1.0: position (v, h) lies in pixel [floor(v), floor(h)]
n = np.array([5.0, 7.0, 11.0]); v = np.array([0.5, 2.5, 1.5]); h = np.array([4.5, 0.5, 3.5])
det.charge.add_charge(particle_type='e', particles_per_cluster=n, init_energy=np.array([1.0, 2.0, 3.0]), init_ver_position=v, init_hor_position=h,
                      init_z_position=np.array([0.1, 0.2, 0.3]), init_ver_velocity=np.array([10.0, 20.0, 30.0]), init_hor_velocity=np.array([40.0, 50.0, 60.0]), init_z_velocity=np.array([70.0, 80.0, 90.0]))
exp = np.zeros((3, 5)); exp[0, 4] = 5.0; exp[2, 0] = 7.0; exp[1, 3] = 11.0
fr = det.charge.frame
if not np.array_equal(det.charge.array, exp):
    VIOLATED, DETAIL = True, f'clusters {n.tolist()} at (v, h) {list(zip(v.tolist(), h.tolist()))} give the array {det.charge.array.tolist()}'
elif (fr['number'].tolist() != n.tolist() or fr['position_ver'].tolist() != v.tolist() or fr['position_hor'].tolist() != h.tolist() or fr['init_pos_ver'].tolist() != v.tolist()
      or fr['init_pos_hor'].tolist() != h.tolist() or fr['position_z'].tolist() != [0.1, 0.2, 0.3] or fr['energy'].tolist() != [1.0, 2.0, 3.0] or fr['velocity_ver'].tolist() != [10.0, 20.0, 30.0]
      or fr['velocity_hor'].tolist() != [40.0, 50.0, 60.0] or fr['velocity_z'].tolist() != [70.0, 80.0, 90.0] or fr['charge'].tolist() != [-1, -1, -1]):
    VIOLATED, DETAIL = True, 'cluster table columns do not hold the quantities they are named after: ' + repr(fr.to_dict('list'))
if not VIOLATED:
    # packets of less than one electron, zero packets and whole ones, on top of an array addition: every non-negative amount is credited
    det2 = VP.detector(rows=4, cols=5, pixel_vert_size=10.0, pixel_horz_size=20.0)
    det2.charge.add_charge_array(np.full((4, 5), 2.0))
    amounts = np.array([0.5, 0.25, 0.75, 0.0, 3.0, 0.5]); pv = np.array([5.0, 15.0, 39.0, 1.0, 25.0, 5.0]); ph = np.array([10.0, 30.0, 99.0, 1.0, 50.0, 10.0]); z = np.zeros(6)
    det2.charge.add_charge(particle_type='e', particles_per_cluster=amounts, init_energy=z, init_ver_position=pv, init_hor_position=ph, init_z_position=z, init_ver_velocity=z, init_hor_velocity=z, init_z_velocity=z)
    want = np.full((4, 5), 2.0)
    for a, y, x in zip(amounts, pv, ph): want[int(y // 10.0), int(x // 20.0)] += a
    if not np.allclose(det2.charge.array, want, rtol=0, atol=1e-12):
        VIOLATED, DETAIL = True, f'array of 2.0 everywhere + clusters of {amounts.tolist()} e-: charge.array differs from the sum by {(det2.charge.array - want).ravel()[np.flatnonzero(~np.isclose(det2.charge.array, want))][:4].tolist()} in pixels {np.argwhere(~np.isclose(det2.charge.array, want))[:4].tolist()}'
try:
    det.charge.add_charge(particle_type='e', particles_per_cluster=np.array([1.0, 2.0]), init_energy=np.zeros(1), init_ver_position=np.zeros(2), init_hor_position=np.zeros(2),
                          init_z_position=np.zeros(2), init_ver_velocity=np.zeros(2), init_hor_velocity=np.zeros(2), init_z_velocity=np.zeros(2))
    VIOLATED, DETAIL = True, 'columns of different lengths accepted'
except ValueError:
    pass
""", "expect": "add_charge files every quantity under its own column; the binned array counts each cluster in the pixel under its position"}

OWNS_REPLAY = lambda w: {"code": """
import numpy as np, verif_probes as VP
VIOLATED, DETAIL = False, 'clusters handed over in arrays that the caller re-uses afterwards keep their own values'
for history in ('fresh', 'after reset'):
    det = VP.detector(rows=3, cols=4, pixel_vert_size=2.0, pixel_horz_size=5.0)
    if history == 'after reset':
        det.charge.add_charge_array(np.ones((3, 4))); det.charge.empty()
    n = np.array([7.0, 9.0]); v = np.array([1.0, 5.0]); h = np.array([2.5, 17.5]); z = np.zeros(2)
    det.charge.add_charge(particle_type='e', particles_per_cluster=n, init_energy=z, init_ver_position=v, init_hor_position=h, init_z_position=z, init_ver_velocity=z, init_hor_velocity=z, init_z_velocity=z)
    want = np.zeros((3, 4)); want[0, 0] = 7.0; want[2, 3] = 9.0
    first = det.charge.array.copy()
    n[:] = 0.0; v[:] = 0.0; h[:] = 0.0                        # the caller re-uses its buffers
    second = det.charge.array.copy()
    if not np.array_equal(first, want) or not np.array_equal(second, want):
        VIOLATED, DETAIL = True, f'{history}: charge after the addition {first.tolist()}, after the caller cleared its own arrays {second.tolist()} (expected {want.tolist()} both times)'; break
""", "expect": "the cluster table holds copies of the arrays it was built from"}

COLUMNS = {"number": "particles_per_cluster", "init_energy": "init_energy", "energy": "init_energy", "init_pos_ver": "init_ver_position", "init_pos_hor": "init_hor_position",
           "init_pos_z": "init_z_position", "position_ver": "init_ver_position", "position_hor": "init_hor_position", "position_z": "init_z_position",
           "velocity_ver": "init_ver_velocity", "velocity_hor": "init_hor_velocity", "velocity_z": "init_z_velocity"}
PARAMS = sorted(set(COLUMNS.values()))


@unit("C14", "clusters.columns")
def create_charges_unit(u: Unit):
    """Charge.create_charges: the table is built from a mapping in which every column holds the argument it is named after
    (the binning reads 'number', 'position_ver', 'position_hor'); electrons carry charge -1, holes +1; columns of different length
    or dimension are refused. pandas.DataFrame(mapping) is the boundary."""
    fi = u.fn(f"{CH}::Charge.create_charges")
    for ptype in ("e", "h", "x"):
        for equal in (True, False):
            cfg = D.install(Cfg("real"))
            made = {}

            def frame(ex, f, args, kwargs, fr):
                made["mapping"] = args[0] if args else kwargs.get("data")
                made["copy"] = kwargs.get("copy", args[4] if len(args) > 4 else None)
                return D.df_obj(ex, z3.Int("n_clusters"))
            cfg.lib_overrides["pandas.DataFrame"] = frame
            n = z3.Int("n_clusters")

            def setup(ex, ptype=ptype, equal=equal):
                made.clear()
                ex.st.assume(n >= 0)
                ex.cols = {}
                for i, name in enumerate(PARAMS):
                    ln = n if (equal or name != "init_energy") else n + 1
                    f = z3.Function(f"col_{name}", z3.IntSort(), z3.RealSort())
                    ex.cols[name] = ex.st.alloc(HArr((ln,), VDtype("float64"), lambda ix, f=f: VFloat(f(z_int(ix[0])))))
                return [], {"particle_type": VStr(ptype), **{k: v for k, v in ex.cols.items()}}
            ps = u.paths(fi, setup, cfg, label=f"create_charges[{ptype},{'equal' if equal else 'unequal'}]")
            tag = f"{ptype},{'equal' if equal else 'unequal'}"
            for p in ps:
                if not equal or ptype == "x":
                    u.oblige(p, f"clusters.columns.refused[{tag}]", p.kind == "raise" and p.exc_name() == "ValueError" and "mapping" not in made, {}, CLUSTER_REPLAY)
                    continue
                if p.kind != "return":
                    u.oblige(p, f"clusters.columns.no_raise[{tag}]", False, {"exc": p.exc_name()}, CLUSTER_REPLAY)
                    continue
                d = p.ex.try_dict(made.get("mapping")) if made.get("mapping") is not None else None
                got = {k.v: v for k, v in d} if d is not None else {}
                ok = set(got) == set(COLUMNS) | {"charge"} and all(isinstance(got[c], VRef) and got[c].addr == p.ex.cols[a].addr for c, a in COLUMNS.items())
                # pandas.DataFrame(mapping of arrays) COPIES its columns unless told copy=False: the table must own its data (the caller's
                # position / number arrays may be re-used buffers)
                cp = made.get("copy")
                owns = cp is None or isinstance(cp, VNone) or (isinstance(cp, VBool) and cp.v is True)
                u.oblige(p, f"clusters.columns.table_owns_its_data[{tag}]", bool(owns), {"copy": repr(cp)}, OWNS_REPLAY)
                u.oblige(p, f"clusters.columns.each_column_holds_its_own_quantity[{tag}]", bool(ok), {"wrong": str([c for c, a in COLUMNS.items() if not (isinstance(got.get(c), VRef) and got[c].addr == p.ex.cols[a].addr)])}, CLUSTER_REPLAY)
                ch = p.ex.try_list(got.get("charge")) if got.get("charge") is not None else None
                sign = -1 if ptype == "e" else 1
                if ch is not None:
                    okc = all(isinstance(x, VInt) and x.v == sign for x in ch)
                else:
                    c = got.get("charge")
                    item = c.get(z3.Int("any_i")) if isinstance(c, VSeq) else None
                    okc = isinstance(item, VInt) and is_conc(item.v) and item.v == sign and z3.is_true(z3.simplify(c.n == z3.If(n > 0, n, 0)))
                u.oblige(p, f"clusters.columns.charge_sign[{tag}]", bool(okc), {}, CLUSTER_REPLAY)
            u.cover(f"clusters.columns.cover[{tag}]", ps, lambda p: True)


@unit("C14", "clusters.add")
def add_charge_unit(u: Unit):
    """Charge.add_charge: every argument reaches create_charges under its own name and the table it returns is what
    add_charge_dataframe receives (whose effect on the binned array is units binning.* / mixed.*)."""
    fi = u.fn(f"{CH}::Charge.add_charge")
    cfg = D.install(Cfg("real"))

    def create(ex, args, kwargs, fr):
        ex.rec["create"] = (list(args), dict(kwargs))
        ex.rec["table"] = D.df_obj(ex, z3.Int("n_new"))
        return ex.rec["table"]

    def add_df(ex, args, kwargs, fr):
        ex.rec["added"] = (list(args), dict(kwargs))
        return NONE
    cfg.contracts[f"{CH}::Charge.create_charges"] = Contract(f"{CH}::Charge.create_charges", create, "clusters.columns")
    cfg.contracts[f"{CH}::Charge.add_charge_dataframe"] = Contract(f"{CH}::Charge.add_charge_dataframe", add_df, "binning / mixed")
    # pandas at the boundary: table[<column name>] is a column, a comparison of a column is a row mask, table[<mask>] is ANOTHER table
    # (some rows of the first one) -- so a table that went through a selection is not "the table create_charges returned"

    def df_getitem(ex, obj, idx, fr):
        if isinstance(idx, VStr):
            return VOpaque("dfcol", ex.st.fresh_int("col"), {"of": obj, "name": idx})
        n = ex.st.fresh_int("n_selected")
        ex.st.assume(z3.And(n >= 0, n <= z_int(obj.info["nrows"])))
        sel = D.df_obj(ex, n)
        sel.info["selected_from"] = obj
        return sel
    cfg.lib_overrides[("getitem", "df")] = df_getitem
    cfg.lib_overrides[("compare", "dfcol")] = lambda ex, op, a, b, fr: VOpaque("dfmask", ex.st.fresh_int("mask"), {})
    cfg.lib_overrides[("opaque_attr", "dfmask")] = lambda ex, obj, name, fr: VLib("dfmask." + name, obj)
    for red in ("all", "any"):
        cfg.lib_overrides["dfmask." + red] = lambda ex, f, args, kwargs, fr: VBool(ex.st.fresh_bool("mask_reduction"))
    cfg.lib_overrides[("neg", "dfmask")] = lambda ex, v: VOpaque("dfmask", ex.st.fresh_int("mask"), {})
    base_df_attr = cfg.lib_overrides[("opaque_attr", "df")]

    def df_attr2(ex, obj, name, fr):
        if name == "empty":
            return VBool(z_int(obj.info["nrows"]) == 0)
        if name == "reset_index":
            return VLib("df.reset_index", obj)
        return base_df_attr(ex, obj, name, fr)
    cfg.lib_overrides[("opaque_attr", "df")] = df_attr2
    cfg.lib_overrides["df.reset_index"] = lambda ex, f, args, kwargs, fr: f.self_val

    def setup(ex):
        D.mk_detector(ex, u)
        ex.rec = {}
        ex.cols = {name: VOpaque("col", z3.Int(f"col_{name}"), {"name": name}) for name in PARAMS}
        return [ex.det_parts["charge"]], {"particle_type": VStr(z3.String("ptype")), **ex.cols}
    ps = u.paths(fi, setup, cfg, label="Charge.add_charge")
    for p in ps:
        if p.kind != "return":
            u.oblige(p, "clusters.add.no_raise", False, {"exc": p.exc_name()}, CLUSTER_REPLAY)
            continue
        r = p.ex.rec
        if "added" not in r:
            u.oblige(p, "clusters.add.the_new_table_is_added_to_this_container", False, {"outcome": "returned without adding the table"}, CLUSTER_REPLAY)
            continue
        a, k = r.get("create", ([], {}))
        ok = not a and set(k) == set(PARAMS) | {"particle_type"} and all(k[n] is p.ex.cols[n] for n in PARAMS) and isinstance(k.get("particle_type"), VStr)
        u.oblige(p, "clusters.add.every_argument_under_its_own_name", bool(ok), {"wrong": str([n for n in PARAMS if k.get(n) is not p.ex.cols[n]])}, CLUSTER_REPLAY)
        a2, k2 = r.get("added", ([], {}))
        tbl = k2.get("new_charges", a2[1] if len(a2) > 1 else None)
        me = a2[0] if a2 else None
        u.oblige(p, "clusters.add.the_new_table_is_added_to_this_container", tbl is r.get("table") and isinstance(me, VRef) and me.addr == p.ex.det_parts["charge"].addr, {}, CLUSTER_REPLAY)
    u.cover("clusters.add.cover", ps, lambda p: p.kind == "return")


# ---- Charge.array in a HISTORY: read, the cluster table is edited in place, read again ------------------------------------------------
CURRENT_REPLAY = lambda w: {"code": """
import numpy as np, verif_probes as VP
VIOLATED, DETAIL = False, 'charge.array is the binning of the cluster table as it is at the moment of the read'
det = VP.detector(rows=3, cols=5)
n = np.array([5.0, 7.0, 11.0]); v = np.array([0.5, 2.5, 1.5]); h = np.array([4.5, 0.5, 3.5]); z = np.zeros(3)
det.charge.add_charge(particle_type='e', particles_per_cluster=n, init_energy=z, init_ver_position=v, init_hor_position=h, init_z_position=z, init_ver_velocity=z, init_hor_velocity=z, init_z_velocity=z)
first = det.charge.array.copy()
det.charge.set_frame_values('number', [50.0, 70.0, 110.0])           # a model edits the table in place
exp = np.zeros((3, 5)); exp[0, 4] = 50.0; exp[2, 0] = 70.0; exp[1, 3] = 110.0
second = det.charge.array.copy()
det.charge.remove_from_frame(id_list=[1])
exp3 = exp.copy(); exp3[2, 0] = 0.0
third = det.charge.array.copy()
det.charge.frame.loc[0, 'position_hor'] = 0.5                        # through the frame property
exp4 = exp3.copy(); exp4[0, 4] = 0.0; exp4[0, 0] = 50.0
fourth = det.charge.array.copy()
if first[0, 4] != 5.0 or not np.array_equal(second, exp) or not np.array_equal(third, exp3) or not np.array_equal(fourth, exp4):
    VIOLATED, DETAIL = True, f'after set_frame_values x10: {second.tolist()} (want {exp.tolist()}); after removing cluster 1: {third.tolist()}; after moving cluster 0: {fourth.tolist()}'
# removals in a row (the labels have gaps after the first one), an id that is not there, and a removal after a further addition
det = VP.detector(rows=4, cols=5)
amounts = np.array([1.0, 2.0, 4.0, 8.0, 16.0]); pos = np.array([0.5, 1.5, 2.5, 3.5, 0.5]); hp = np.array([0.5, 1.5, 2.5, 3.5, 4.5]); z = np.zeros(5)
det.charge.add_charge(particle_type='e', particles_per_cluster=amounts, init_energy=z, init_ver_position=pos, init_hor_position=hp, init_z_position=z, init_ver_velocity=z, init_hor_velocity=z, init_z_velocity=z)
alive = {i: (int(pos[i]), int(hp[i]), amounts[i]) for i in range(5)}
for ids in ([0], [2], [7], [3, 4]):
    det.charge.remove_from_frame(id_list=list(ids))
    for i in ids: alive.pop(i, None)
    want = np.zeros((4, 5))
    for r, c, a in alive.values(): want[r, c] += a
    got = det.charge.array
    if (alive or got.shape == want.shape) and not np.array_equal(got, want) and not VIOLATED:
        VIOLATED, DETAIL = True, f'after remove_from_frame({ids}) (clusters left by id: {sorted(alive)}): charge.array = {np.asarray(got).tolist()}, sum of the clusters left = {want.tolist()}'
""", "expect": "every read of charge.array reflects the cluster table at that moment (in-place edits included)"}


DROP_LABEL = z3.Function("table_without_label", z3.IntSort(), z3.IntSort(), z3.IntSort())


@unit("C14", "array.current")
def array_current(u: Unit):
    """Charge.array (getter) in a history made of the container's OWN operations. The container is built by the real Charge.__init__
    (whatever private fields it has); a cluster table T is added through the real add_charge_dataframe; then: read (must be bin(T)); the
    table is edited IN PLACE through the real set_frame_values / remove_from_frame(ids) (pandas DataFrame.update / query(inplace=True) are
    the boundary: same DataFrame object, new content T'), or replaced through a second add_charge_dataframe, or left alone; read again:
    the result is the binning of the table as it is THEN. convert_df_to_array is the contract of unit `bin` (the array is a function
    of the table content)."""
    cci = u.cls(f"{CH}::Charge")
    fg = cci.getters["array"]
    for q in ("__init__", "add_charge_dataframe", "set_frame_values", "remove_from_frame"):
        u.fn(f"{CH}::Charge.{q}")
    u.functions.setdefault(fg.qualname, {"sha": fg.sha, "file_sha": fg.module.sha, "paths": 0, "obligations": 0, "role": "under contract"})
    BIN = z3.Function("binned_table", z3.IntSort(), z3.IntSort(), z3.IntSort(), z3.RealSort())
    cq = f"{CH}::Charge.convert_df_to_array"
    COLS = ("charge", "number", "init_energy", "energy", "init_pos_ver", "init_pos_hor", "init_pos_z", "position_ver", "position_hor", "position_z", "velocity_ver", "velocity_hor", "velocity_z")
    for edit in ("set_frame_values", "remove_from_frame(ids)", "second add", "none"):
        cfg = D.install(Cfg("real"))
        base_attr = cfg.lib_overrides[("opaque_attr", "df")]

        def df_attr(ex, obj, name, fr, base_attr=base_attr):
            if name == "columns":
                return VTuple([VStr(c) for c in COLS])
            if name in ("update", "query"):
                return VLib("df." + name, obj)
            return base_attr(ex, obj, name, fr)

        def df_edit(ex, f, args, kwargs, fr):
            # DataFrame.update(other) / DataFrame.query(expr, inplace=True): the SAME object afterwards holds other rows / values
            t = f.self_val
            if f.name == "df.query" and ex.truth(kwargs.get("inplace", VBool(False))) is not True:
                return D.df_obj(ex, ex.st.fresh_int("n_selected"))
            if f.name == "df.query":
                # the only selection under contract: "index not in <ids>" = drop the rows whose index LABEL is in ids (pandas contract);
                # any other expression text is outside it (undecided, the bounded stand-in runs)
                e = args[0] if args else kwargs.get("expr")
                ids = None
                if isinstance(e, VStr) and z3.is_expr(e.v) and e.v.decl().kind() == z3.Z3_OP_SEQ_CONCAT and e.v.num_args() == 2 and z3.is_string_value(e.v.arg(0)) \
                        and e.v.arg(0).as_string() == "index not in ":
                    ids = next((ev[2] for ev in ex.st.events if ev[0] == "fmt" and z3.eq(ev[1], e.v.arg(1))), None)
                items = ex.try_list(ids) if ids is not None else None
                if items is None or not all(isinstance(x, VInt) for x in items):
                    raise Unsupported("DataFrame.query(inplace=True) with an expression other than 'index not in <list of ids>'")
                c = z_int(t.info["content"])
                for x in items:
                    c = DROP_LABEL(c, z_int(x.v))
                t.info["content"] = c
                n = ex.st.fresh_int("n_left")
                ex.st.assume(z3.And(n >= 1, n <= z_int(t.info["nrows"])))
                t.info["nrows"] = n
                return NONE
            t.info["content"] = ex.st.fresh_int("df_content_after_edit")
            if f.name == "df.query":
                n = ex.st.fresh_int("n_left")
                ex.st.assume(z3.And(n >= 1, n <= z_int(t.info["nrows"])))
                t.info["nrows"] = n
            return NONE
        cfg.lib_overrides[("opaque_attr", "df")] = df_attr
        cfg.lib_overrides["df.update"] = df_edit
        cfg.lib_overrides["df.query"] = df_edit
        cfg.lib_overrides["pandas.DataFrame"] = lambda ex, f, args, kwargs, fr: D.df_obj(ex, z3.IntVal(0) if not args and "data" not in kwargs else ex.st.fresh_int("n_rows"))
        def concat(ex, f, args, kwargs, fr):
            n = z3.IntVal(0)
            for x in (ex.try_list(args[0]) or []):
                n = n + z_int(x.info["nrows"])
            return D.df_obj(ex, z3.simplify(n))                 # as many rows as its parts together, new content
        cfg.lib_overrides["pandas.concat"] = concat
        hold = {}

        def rebin(ex, args, kwargs, fr, hold=hold):
            fr_ = ex.st.cell(args[0]).fields["_frame"]
            return ex.st.alloc(HArr((D.ROWS, D.COLS), VDtype("float64"), lambda ix, t=fr_.info["content"]: VFloat(BIN(t, z_int(ix[0]), z_int(ix[1])))))
        cfg.contracts[cq] = Contract(cq, rebin, "C14.bin.*: the array is a function of the cluster table")

        def setup(ex, edit=edit, hold=hold):
            hold.clear()
            D.mk_detector(ex, u)
            st = ex.st
            fr0 = Frame(None, cci.module)
            try:
                ch = ex.instantiate(cci, [], {"geo": ex.det_parts["geo"]}, fr0)
                st.assume(z3.Int("n_clusters") > 0)
                table = D.df_obj(ex, z3.Int("n_clusters"))
                ex.call(ex.getattr(ch, "add_charge_dataframe", fr0), [table], {}, fr0)
                now = st.cell(ch).fields["_frame"]
                hold["t1"] = now.info["content"]
                hold["first"] = ex.getattr(ch, "array", fr0)
                if edit == "set_frame_values":
                    ex.call(ex.getattr(ch, "set_frame_values", fr0), [VStr("number"), st.alloc(HList([VFloat(z3.Real("new_number"))]))], {}, fr0)
                elif edit == "remove_from_frame(ids)":
                    ex.call(ex.getattr(ch, "remove_from_frame", fr0), [], {"id_list": st.alloc(HList([VInt(z3.Int("removed_id"))]))}, fr0)
                elif edit == "second add":
                    st.assume(z3.Int("n_clusters2") > 0)
                    ex.call(ex.getattr(ch, "add_charge_dataframe", fr0), [D.df_obj(ex, z3.Int("n_clusters2"))], {}, fr0)
                hold["want"] = st.cell(ch).fields["_frame"].info["content"]
                if edit == "remove_from_frame(ids)":
                    hold["want_spec"] = DROP_LABEL(z_int(hold["t1"]), z3.Int("removed_id"))
                hold["same_object"] = st.cell(ch).fields["_frame"] is now
            except PyExc as pe:
                hold["failed"] = ex.exc_class_name(pe.val)
                ch = ex.det_parts["charge"]
            return [ch], {}
        ps = u.paths(fg, setup, cfg, label=f"Charge.array[read, {edit}, read]")
        for p in ps:
            if p.kind != "return" or hold.get("failed") or not p.ex.is_arr(p.value):
                u.oblige(p, f"array.current[{edit}].returns_array", False, {"exc": p.exc_name() or hold.get("failed")}, CURRENT_REPLAY, fnq=fg.qualname)
                continue
            f1 = p.st.cell(hold["first"])
            out = p.st.cell(p.value)
            g = (D.GEN[0], D.GEN[1])
            u.oblige(p, f"array.current[{edit}].first_read", to_real(f1.elem(g)) == BIN(hold["t1"], g[0], g[1]), {}, CURRENT_REPLAY, fnq=fg.qualname)
            u.oblige(p, f"array.current[{edit}].read_after", z3.And(to_real(out.elem(g)) == BIN(hold["want"], g[0], g[1]), z_int(out.shape[0]) == D.ROWS, z_int(out.shape[1]) == D.COLS),
                     {"table": edit, "same DataFrame object": hold.get("same_object")}, CURRENT_REPLAY, fnq=fg.qualname)
            if edit == "remove_from_frame(ids)":
                u.oblige(p, f"array.current[{edit}].drops_the_rows_with_these_labels", z_int(hold["want"]) == hold["want_spec"], {"removed_id": z3.Int("removed_id")}, CURRENT_REPLAY, fnq=fg.qualname)
        u.cover(f"array.current.cover[{edit}]", ps, lambda p: p.kind == "return")
