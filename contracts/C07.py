"""C07 — parallel execution yields the same results as sequential execution  (PARTIAL: necessary conditions only).

Contracts describe ONE sequential execution; "any scheduler, any worker count, any completion order" is a quantifier over
schedules that contract-based deductive verification cannot decide, and dask / pygmo are external. What IS decided:
  parallel.params[mode]   the parameter array handed to the parallel machinery enumerates the same space as the sequential
                          path (same contracts as C05; sequential mode is a known finding)
  task.isolated           the function that dask applies per parameter cell works on its own copy of the processor
                          (Processor.replace, proved separate in C06), a new Readout, files carrying its own index, and
                          passes the shared processor / readout / outputs on without writing them (data-flow obligations)
  task.same_as_sequential the per-cell task calls exposure.run_pipeline with the same seed / readout / inherited-coordinates
                          arguments as the sequential path does
  fileindex.injective     output file indices are arange(size).reshape(shape): one distinct suffix per parameter cell
  islands.order           islands are created by executor.map over the seed list (order preserving) and pushed back in
                          iteration order
Unverified premises, reported: the process-wide random generator is shared by threads; dask places chunk outputs by
position; pygmo/dask evaluation of candidates is order-insensitive.
"""
from __future__ import annotations

import ast

from .common import *  # noqa: F401,F403
from . import C05
from .C20 import normalise_expr

OD = "pyxel/observation/observation_dask.py"
LEVEL = "other"
TRUSTED = ["NOT DECIDED by this technique: independence from the dask scheduler, worker count and completion order (quantifier over schedules; concurrency is outside "
           "sequential contracts)", "dask calls the task once per chunk and places outputs by chunk position; executor.map preserves order; pygmo evaluation is order-insensitive",
           "threads share the process-wide numpy generator when a seed is set (unverified premise of non-interference)"]
EXPLANATION = "Only necessary conditions of the property are decided (frame-disjointness premises and equality of the enumerated parameter space)."

unit("C07", "parallel.params")(C05.parallel_params)


@unit("C07", "task")
def task(u: Unit):
    fa = u.fn(f"{OD}::_run_pipelines_array_to_datatree")
    src = ast.unparse(fa.node)
    calls = [n for n in ast.walk(fa.node) if isinstance(n, ast.Call) and ast.unparse(n.func) == "run_pipeline"]
    one = len(calls) == 1
    u.static("task.isolated[one exposure per cell]", one, fa.qualname, f"{len(calls)} calls of exposure.run_pipeline in the per-cell task")
    if one:
        kw = {k.arg: normalise_expr(fa.node, calls[0].keywords, k.arg) for k in calls[0].keywords}
        u.static("task.isolated[own processor copy]", kw.get("processor") == "processor.replace(dict(zip(dimension_names,params_tuple,strict=False)))", fa.qualname, f"processor argument: {kw.get('processor')}")
        u.static("task.isolated[own file index]", kw.get("output_filename_suffix") == "output_filename_suffix", fa.qualname, f"output_filename_suffix argument: {kw.get('output_filename_suffix')}")
        u.static("task.same_as_sequential[seed]", kw.get("pipeline_seed") == "pipeline_seed", fa.qualname, f"pipeline_seed argument: {kw.get('pipeline_seed')}")
        u.static("task.same_as_sequential[readout]", kw.get("readout") in ("readout", "new_readout") and "new_readout: Readout = readout" in src and "new_readout = new_readout.replace(times=value)" in src,
                 fa.qualname, "readout argument is the shared readout or a NEW object from Readout.replace (the shared one is never written)")
    # the shared objects are only read: no assignment to their attributes / items in the task functions
    for q in ("_run_pipelines_array_to_datatree", "_run_pipelines_tuple_to_array"):
        fn = u.fn(f"{OD}::{q}")
        writes = []
        for n in ast.walk(fn.node):
            if isinstance(n, (ast.Assign, ast.AugAssign, ast.AnnAssign)):
                for t in (n.targets if isinstance(n, ast.Assign) else [n.target]):
                    root = t
                    while isinstance(root, (ast.Attribute, ast.Subscript)):
                        root = root.value
                    if isinstance(t, (ast.Attribute, ast.Subscript)) and isinstance(root, ast.Name) and root.id in ("processor", "readout", "outputs", "dimension_names", "output_dimensions"):
                        writes.append(ast.unparse(t))
        u.static(f"task.isolated[{q} writes no shared object]", not writes, fn.qualname, f"assignments into shared arguments: {writes}")
    ft = u.fn(f"{OD}::_run_pipelines_tuple_to_array")
    s2 = ast.unparse(ft.node).replace(" ", "")
    u.static("task.tuple_wraps_array", "_run_pipelines_array_to_datatree(" in s2 and "output_filename_suffix=output_filename_suffixes" in s2 and "processor=processor" in s2, ft.qualname,
             "the dask task forwards its cell's parameters, file index and the shared (read-only) processor to the per-cell function")


@unit("C07", "fileindex")
def fileindex(u: Unit):
    fn = u.fn(f"{OD}::run_pipelines_with_dask")
    s = ast.unparse(fn.node).replace(" ", "")
    u.static("fileindex.injective", "np.arange(params_dataarray.size).reshape(params_dataarray.shape)" in s and "dims=params_dataarray.dims" in s, fn.qualname,
             "output_filename_indices = arange(size).reshape(shape) on the dims of the parameter array: distinct suffix per cell",
             replay=lambda w: {"code": "VIOLATED, DETAIL = False, 'structural obligation on run_pipelines_with_dask (see detail)'", "expect": "one file index per parameter cell"})
    u.static("fileindex.passed_per_chunk", "params_dataarray.chunk(1),output_filename_indices," in s, fn.qualname, "parameters and file indices are chunked one cell per task, in the same positions")


@unit("C07", "islands")
def islands(u: Unit):
    fb = u.fn("pyxel/calibration/archipelago_datatree.py::ArchipelagoDataTree._build")
    s = ast.unparse(fb.node).replace(" ", "")
    ok = "it=executor.map(create_island,seeds)" in s and "it=map(create_island,seeds)" in s and s.count("self._pygmo_archi.push_back(island)") == 2
    u.static("islands.order", ok, fb.qualname, "islands come from (executor.)map over the seed list and are pushed back in iteration order, with and without threads")
