"""C07 — parallel execution yields the same results as sequential execution  (PARTIAL: necessary conditions only).

Contracts describe ONE sequential execution; "any scheduler, any worker count, any completion order" is a quantifier over
schedules that contract-based deductive verification cannot decide, and dask / pygmo are external. What IS decided:
  parallel.params[mode]   the parameter array handed to the parallel machinery enumerates the same space as the sequential
                          path (same contracts as C05; sequential mode is a known finding)
  task.copy / *.separate  Processor.replace / __deepcopy__ give a copy that shares no mutable object (bucket arrays, argument
                          lists / dictionaries, detector memory) with the template processor read by all tasks (C06's unit)
  task.isolated           the function that dask applies per parameter cell works on its own copy of the processor
                          (Processor.replace), a new Readout, files carrying its own index, and
                          passes the shared processor / readout / outputs on without writing them (data-flow obligations)
  task.same_as_sequential the per-cell task calls exposure.run_pipeline with the same seed / readout / inherited-coordinates
                          arguments as the sequential path does
  fileindex.injective     output file indices are arange(size).reshape(shape): one distinct suffix per parameter cell
  islands.order           islands are created by executor.map over the seed list (order preserving) and pushed back in
                          iteration order
Unverified premises, reported: the process-wide random generator is shared by threads; dask places chunk outputs by
position; pygmo/dask evaluation of candidates is order-insensitive.
"""
from __future__ import annotations

import ast

from .common import *  # noqa: F401,F403
from . import C05, C06, boundary
from . import defuse as DU

OD = "pyxel/observation/observation_dask.py"
LEVEL = "other"
BOUNDED = {
    r'islands\.build': 'archipelagos of 1 and 3 islands (every seed)',
    r'^task': 'tasks with 1..2 swept parameters; processor family as in C06',
    r'^parallel\.params': 'parameter spaces as in C05',
}      # unit-name / obligation-name patterns -> the family these obligations are proved for
TRUSTED = ["NOT DECIDED by this technique: independence from the dask scheduler, worker count and completion order (quantifier over schedules; concurrency is outside "
           "sequential contracts)", "dask calls the task once per chunk and places outputs by chunk position; executor.map preserves order; pygmo evaluation is order-insensitive",
           "threads share the process-wide numpy generator when a seed is set (unverified premise of non-interference)"]
EXPLANATION = "Only necessary conditions of the property are decided (frame-disjointness premises and equality of the enumerated parameter space)."

unit("C07", "parallel.params")(C05.parallel_params)
# the copy each task works on (Processor.replace -> Processor.__deepcopy__ -> ModelGroup / ModelFunction / Arguments copies)
# shares no mutable object with the template processor that all concurrently running tasks read: same obligations as C06
unit("C07", "task.copy")(C06.deepcopy_unit)
from pyvc import verify as _verify  # noqa: E402
unit("C07", "task.replace")(dict(_verify.UNITS["C06"])["replace"])      # Processor.replace: ALWAYS a separate, structurally equal copy with the values applied


def _roots_written(fn_node, names):
    writes = []
    for n in ast.walk(fn_node):
        if isinstance(n, (ast.Assign, ast.AugAssign, ast.AnnAssign)):
            for t in (n.targets if isinstance(n, ast.Assign) else [n.target]):
                root = t
                while isinstance(root, (ast.Attribute, ast.Subscript)):
                    root = root.value
                if isinstance(t, (ast.Attribute, ast.Subscript)) and isinstance(root, ast.Name) and root.id in names:
                    writes.append(ast.unparse(t))
    return writes


@unit("C07", "task")
def task(u: Unit):
    """The per-cell task, by symbolic execution of the real `_run_pipelines_array_to_datatree` (1 and 2 parameters, symbolic
    keys and values; processor / readout / outputs are boundary objects whose method calls are recorded)."""
    fa = u.fn(f"{OD}::_run_pipelines_array_to_datatree")
    for n in (1, 2):
        cfg = Cfg("real")
        boundary.install(cfg)
        rec = {}

        def run_pipe(ex, args, kwargs, fr, rec=rec):
            rec.setdefault("runs", []).append(dict(kwargs))
            return VOpaque("xr", ex.st.fresh_int("tree"), {"label": "data_tree"})
        cfg.contracts["pyxel/exposure/exposure.py::run_pipeline"] = Contract("pyxel/exposure/exposure.py::run_pipeline", run_pipe, "exposure (C02)")
        keys = [VStr(z3.String(f"dim_key{i}")) for i in range(n)]
        vals = [VInt(z3.Int(f"param{i}")) for i in range(n)]
        shared = {}

        def setup(ex, n=n, rec=rec, shared=shared):
            rec.clear()
            if n == 2:
                ex.st.assume(keys[0].v != keys[1].v)
            o = lambda l: VOpaque("xr", ex.st.fresh_int("xr"), {"label": l, "truthy": True})
            shared.update(processor=o("processor"), readout=o("readout"), outputs=o("outputs"))
            dn = ex.st.alloc(HDict([(k, VStr(f"short{i}")) for i, k in enumerate(keys)]))
            return [], {"params_tuple": VTuple(list(vals)), "output_filename_suffix": VInt(z3.Int("file_index")), "dimension_names": dn,
                        "processor": shared["processor"], "readout": shared["readout"], "outputs": shared["outputs"], "pipeline_seed": VInt(z3.Int("seed")),
                        "progressbar": VBool(False)}
        ps = u.paths(fa, setup, cfg, label=f"_run_pipelines_array_to_datatree[{n}]")
        n_ret = 0
        for p in ps:
            if p.kind != "return":
                continue        # NotImplementedError for unsupported readout keys: no run
            n_ret += 1
            runs = rec.get("runs", [])
            u.oblige(p, f"task.isolated[one exposure per cell:{n}]", bool(len(runs) == 1), {})
            if len(runs) != 1:
                continue
            kw = runs[0]
            reps = [e for e in p.st.events if e[0] == "xr_call" and str(e[1]) == "processor.replace"]
            proc = kw.get("processor")
            ok = len(reps) == 1 and isinstance(proc, VOpaque) and proc.info.get("fn") is not None and proc.info["fn"].info.get("of") is shared["processor"] and proc is not shared["processor"]
            if ok:
                d = p.ex.try_dict(reps[0][2][0]) if reps[0][2] else None
                ok = d is not None and len(d) == n and all(z3.eq(z_str(k.v), z_str(keys[i].v)) and v is vals[i] for i, (k, v) in enumerate(d))
            u.oblige(p, f"task.isolated[own processor copy:{n}]", bool(ok), {})
            u.oblige(p, f"task.isolated[own file index:{n}]", bool(kw.get("output_filename_suffix") is not None and isinstance(kw["output_filename_suffix"], VInt) and z3.eq(z_int(kw["output_filename_suffix"].v), z3.Int("file_index"))), {})
            u.oblige(p, f"task.same_as_sequential[seed:{n}]", bool(isinstance(kw.get("pipeline_seed"), VInt) and z3.eq(z_int(kw["pipeline_seed"].v), z3.Int("seed"))), {})
            ro = kw.get("readout")
            chain_ok = ro is shared["readout"]
            if not chain_ok and isinstance(ro, VOpaque):        # a NEW readout made by Readout.replace(times=<this cell's value>)
                fn_ = ro.info.get("fn")
                chain_ok = fn_ is not None and str(fn_.info.get("attr")) == "replace" and set(ro.info.get("kwargs", {})) == {"times"} and any(ro.info["kwargs"]["times"] is v for v in vals)
            u.oblige(p, f"task.same_as_sequential[readout:{n}]", bool(chain_ok), {})
            u.oblige(p, f"task.isolated[shared outputs passed on:{n}]", bool(kw.get("outputs") is shared["outputs"]), {})
            wr = [e for e in p.st.events if e[0] in ("xr_setattr", "xr_setitem") and any(e[-1] is shared[k] for k in shared)]
            u.oblige(p, f"task.isolated[writes no shared object:{n}]", bool(not wr), {})
        u.cover(f"task.cover[{n}]", [1] * n_ret, lambda _: True)
    # the dask task wrapper forwards its cell's arguments unchanged (data-flow, def-use resolved)
    ft = u.fn(f"{OD}::_run_pipelines_tuple_to_array")
    cs = DU.calls(ft.node, "_run_pipelines_array_to_datatree")
    kw = DU.kw_args(ft.node, cs[0]) if len(cs) == 1 else {}
    want = {"params_tuple": "params_tuple", "output_filename_suffix": "output_filename_suffixes", "processor": "processor", "readout": "readout", "outputs": "outputs",
            "pipeline_seed": "pipeline_seed", "dimension_names": "dimension_names"}
    u.static("task.tuple_wraps_array", len(cs) == 1 and all(kw.get(k) == v for k, v in want.items()), ft.qualname,
             f"the dask task forwards its cell's parameters, file index and the shared (read-only) objects to the per-cell function: {kw}")
    for q in ("_run_pipelines_array_to_datatree", "_run_pipelines_tuple_to_array"):
        fn = u.fn(f"{OD}::{q}")
        writes = _roots_written(fn.node, ("processor", "readout", "outputs", "dimension_names", "output_dimensions"))
        u.static(f"task.isolated[{q} writes no shared object]", not writes, fn.qualname, f"assignments into shared arguments: {writes}")


SEEDED_DASK_REPLAY = lambda w: {"code": """
import numpy as np, dask, verif_probes as VP
import pyxel
from pyxel.pipelines import DetectionPipeline, ModelFunction
from pyxel.exposure import Readout
from pyxel.observation import Observation, ParameterValues
VIOLATED, DETAIL = False, 'a seeded parallel observation equals the sequential one for every seed (0 included)'
def run(seed, with_dask):
    pipe = DetectionPipeline(photon_collection=[ModelFunction(func='pyxel.models.photon_collection.illumination', name='ill', arguments={'level': 100.0}),
                                                ModelFunction(func='pyxel.models.photon_collection.shot_noise', name='sn', arguments={})])
    obs = Observation(parameters=[ParameterValues(key='pipeline.photon_collection.ill.arguments.level', values=[100.0, 1000.0, 10000.0])], readout=Readout(times=[1.0]), with_dask=with_dask, pipeline_seed=seed)
    with dask.config.set(scheduler='synchronous'):
        dt = pyxel.run_mode(mode=obs, detector=VP.detector(), pipeline=pipe, with_inherited_coords=True)
        return np.asarray(dt['/bucket/photon'].compute() if hasattr(dt['/bucket/photon'], 'compute') else dt['/bucket/photon']).squeeze()
for seed in (0, 1234, 7):
    a, b = run(seed, False), run(seed, True)
    if a.shape != b.shape or not np.array_equal(a, b):
        VIOLATED, DETAIL = True, f'pipeline_seed={seed}: sequential photon {a.ravel()[:3]} vs parallel (dask) {b.ravel()[:3]}'; break
""", "expect": "the shared arguments (seed, outputs, readout, processor, names) reach every dask task: seeded parallel == seeded sequential, seed 0 included"}


ONE_TASK_REPLAY = lambda w: {"code": """
import sys, types, dask, numpy as np, verif_probes as VP
import pyxel
from pyxel.pipelines import DetectionPipeline, ModelFunction
from pyxel.exposure import Readout
from pyxel.observation import Observation, ParameterValues
mod = types.ModuleType('c07_grid')
def cell(detector, a=0.0, b=0.0):
    if b > 1.0:
        raise ValueError('b out of range 4711')
    detector.photon.array = np.full(detector.geometry.shape, 100.0 * a + b)
mod.cell = cell
sys.modules['c07_grid'] = mod
pipe = DetectionPipeline(photon_collection=[ModelFunction(func='c07_grid.cell', name='cell', arguments={'a': 0.0, 'b': 0.0})])
obs = Observation(parameters=[ParameterValues(key='pipeline.photon_collection.cell.arguments.a', values=[1.0, 2.0]),
                              ParameterValues(key='pipeline.photon_collection.cell.arguments.b', values=[0.25, 0.5, 1.5])], readout=Readout(times=[1.0]), with_dask=True)
VIOLATED, DETAIL = False, 'every run of a parallel sweep is its own task: a failing run does not take valid runs with it'
with dask.config.set(scheduler='synchronous'):
    dt = pyxel.run_mode(mode=obs, detector=VP.detector(), pipeline=pipe, with_inherited_coords=True)
    ph = dt['/bucket/photon']
    for a in (1.0, 2.0):
        for b in (0.25, 0.5):
            try:
                v = float(np.asarray(ph.sel(a=a, b=b).compute()).ravel()[0])
            except Exception as e:
                VIOLATED, DETAIL = True, f'the run a={a}, b={b} is valid but computing it raised {e!r} (the failing run b=1.5 shares its task)'; break
            if v != 100.0 * a + b:
                VIOLATED, DETAIL = True, f'run a={a}, b={b}: photon {v}, expected {100.0 * a + b}'; break
        if VIOLATED: break
""", "expect": "one dask task per run (parameters and file indices chunked one cell per task)"}


@unit("C07", "fileindex")
def fileindex(u: Unit):
    fn = u.fn(f"{OD}::run_pipelines_with_dask")
    cs = DU.calls(fn.node, "apply_ufunc")
    pos = DU.pos_args(fn.node, cs[0]) if len(cs) == 1 else []
    # the file-index array: may be bound in a branch (`if outputs:`), so look at every binding of the name passed
    idx_exprs = []
    if len(pos) >= 3:
        name = ast.unparse(cs[0].args[2])
        for n in ast.walk(fn.node):
            if isinstance(n, (ast.Assign, ast.AnnAssign)) and n.value is not None and not (isinstance(n.value, ast.Constant) and n.value.value is None):
                tgt = n.targets[0] if isinstance(n, ast.Assign) else n.target
                if isinstance(tgt, ast.Name) and tgt.id == name:
                    idx_exprs.append(DU.norm(fn.node, n.value))
        if not idx_exprs:
            idx_exprs = [pos[2]]
    P = "parameter_mode.create_params(dim_names=dim_names)"        # the parameter array (locals resolved)
    # "one cell per task": `.chunk(1)`, or a mapping that gives EVERY dimension of the parameter array the chunk size 1; any other chunking
    # expression is not decided on its text (undecided: the native scenarios -- files per run, a failing run -- decide)
    def one_cell(e):
        t = e.replace(" ", "")
        Pn = P.replace(" ", "")
        if t.endswith(".chunk(1)"):
            return t[:-len(".chunk(1)")], True
        for form in ("{d:1fordin%s.dims}" % Pn, "dict.fromkeys(%s.dims,1)" % Pn, "{dim:1fordimin%s.dims}" % Pn):
            if t.endswith(".chunk(" + form + ")"):
                return t[:-len(".chunk(" + form + ")")], True
        i = t.rfind(".chunk(")
        return (t[:i], None) if i >= 0 else (t, False)
    parts = [one_cell(e) for e in idx_exprs]
    structure = bool(idx_exprs) and all(f"np.arange({P}.size).reshape({P}.shape)".replace(" ", "") in b and f"dims={P}.dims".replace(" ", "") in b for b, _ in parts)
    if structure and any(c is None for _, c in parts):
        u.undecide("fileindex.injective", fn.qualname, f"the file-index array is chunked by an expression that is not recognised as one cell per task: {idx_exprs}")
    else:
        u.static("fileindex.injective", structure and all(c is True for _, c in parts), fn.qualname,
                 f"file indices = arange(size).reshape(shape) on the dims of the parameter array, one chunk per cell: {idx_exprs}",
                 replay=FILEINDEX_REPLAY)
    pb, pc = one_cell(pos[1]) if len(pos) >= 3 else ("", False)
    if len(pos) >= 3 and pos[0] == "_run_pipelines_tuple_to_array" and pb == P.replace(" ", "") and pc is None:
        u.undecide("fileindex.passed_per_chunk", fn.qualname, f"the parameter array is chunked by an expression that is not recognised as one cell per task: {pos[1]}")
    else:
        u.static("fileindex.passed_per_chunk", len(pos) >= 3 and pos[0] == "_run_pipelines_tuple_to_array" and pb == P.replace(" ", "") and pc is True, fn.qualname,
                 f"apply_ufunc(task, parameters chunked one cell per task, file indices): {pos[:3]}", replay=ONE_TASK_REPLAY)
    kd = DU.dict_arg(fn.node, next((k.value for k in cs[0].keywords if k.arg == "kwargs"), None)) if len(cs) == 1 else None
    want = {"dimension_names": "dim_names", "processor": "processor", "outputs": "outputs", "readout": "readout", "pipeline_seed": "pipeline_seed"}
    u.static("task.shared_arguments_forwarded", kd is not None and all(kd.get(k) == v for k, v in want.items()), fn.qualname, f"kwargs of apply_ufunc: {kd}", replay=SEEDED_DASK_REPLAY)


FILEINDEX_REPLAY = lambda w: {"code": """
import warnings, tempfile, pathlib, numpy as np, verif_probes as VP, pyxel
from pyxel.exposure import Readout
from pyxel.observation import Observation, ParameterValues
from pyxel.outputs import ObservationOutputs
from pyxel.pipelines import DetectionPipeline, ModelFunction
warnings.simplefilter('ignore')
VIOLATED, DETAIL = False, 'every run of a parallel product sweep writes its own files, holding its own bucket'
root = pathlib.Path(tempfile.mkdtemp())
pipe = DetectionPipeline(photon_collection=[ModelFunction(func='pyxel.models.photon_collection.illumination', name='illum', arguments={'level': 1.0}),
                                            ModelFunction(func='verif_probes.writer', name='w', arguments={'pixel_add': 1.0})])
levels, adds = [10.0, 20.0, 30.0], [1.0, 2.0]
obs = Observation(parameters=[ParameterValues(key='pipeline.photon_collection.illum.arguments.level', values=levels), ParameterValues(key='pipeline.photon_collection.w.arguments.pixel_add', values=adds)],
                  readout=Readout(times=[1.0]), with_dask=True, outputs=ObservationOutputs(output_folder=root, save_data_to_file=[{'detector.photon.array': ['npy']}, {'detector.pixel.array': ['npy']}]))
dt = pyxel.run_mode(mode=obs, detector=VP.detector(), pipeline=pipe, with_inherited_coords=True)
dt = dt.compute() if hasattr(dt, 'compute') else dt
files = sorted(p for p in root.rglob('*.npy'))
by_name = {}
for f in files:
    by_name.setdefault(f.name.split('_')[1], []).append(f)
want_photon = sorted(levels * len(adds)); want_pixel = sorted(adds * len(levels))
got_photon = sorted(float(np.load(f).ravel()[0]) for f in by_name.get('photon', [])); got_pixel = sorted(float(np.load(f).ravel()[0]) for f in by_name.get('pixel', []))
if len(by_name.get('photon', [])) != 6 or len(by_name.get('pixel', [])) != 6 or got_photon != want_photon or got_pixel != want_pixel:
    VIOLATED, DETAIL = True, f'3 x 2 sweep: {len(by_name.get("photon", []))} photon files holding {got_photon} (expected {want_photon}); {len(by_name.get("pixel", []))} pixel files holding {got_pixel}'
""", "expect": "a parallel product sweep over two parameters writes one file per run and bucket, each holding that run's bucket"}


@unit("C07", "islands")
def islands(u: Unit):
    fb = u.fn("pyxel/calibration/archipelago_datatree.py::ArchipelagoDataTree._build")
    maps = [c for c in ast.walk(fb.node) if isinstance(c, ast.Call) and (ast.unparse(c.func) == "map" or ast.unparse(c.func).endswith(".map"))]
    ok_maps = len(maps) >= 1 and all(len(c.args) == 2 and ast.unparse(c.args[0]) == "create_island" and ast.unparse(c.args[1]) == "seeds" for c in maps)
    loops = [n for n in ast.walk(fb.node) if isinstance(n, ast.For) and any(isinstance(c, ast.Call) and ast.unparse(c.func).endswith("push_back") for c in ast.walk(n))]
    ok_loops = len(loops) == len(maps) and all(
        len([c for c in ast.walk(l) if isinstance(c, ast.Call) and ast.unparse(c.func).endswith("push_back")]) == 1 and
        any(isinstance(c, ast.Call) and ast.unparse(c.func).endswith("push_back") and len(c.args) == 1 and ast.unparse(c.args[0]) == ast.unparse(l.target) for c in ast.walk(l))
        for l in loops)
    u.static("islands.order", ok_maps and ok_loops, fb.qualname, "islands come from (executor.)map(create_island, seeds) and each one is pushed back once, in iteration order, with and without threads")


from . import calibreport as _CR7  # noqa: E402
unit("C07", "islands.build")(_CR7.build_unit)              # _build executed: island seeds / order / settings (1 and 3 islands, every seed)
from . import C05 as _C05b  # noqa: E402
unit("C07", "parallel.custom_columns")(_C05b.custom_parallel_columns)   # the parallel run of a custom-mode row uses the same table columns as the sequential one


# ---- the dask task pairs dimension names with tuple components BY POSITION: the names must come in the order of the swept keys -------------
DIMS_REPLAY = lambda w: {"code": """
import warnings, numpy as np, verif_probes as VP, pyxel
from pyxel.exposure import Readout
from pyxel.observation import Observation, ParameterValues
from pyxel.observation.observation import _get_short_dimension_names_new
from pyxel.pipelines import DetectionPipeline, ModelFunction
warnings.simplefilter('ignore')
VIOLATED, DETAIL = False, 'dimension names come in the order of the swept keys; every dask run applies each value to its own key'
for keys in (['detector.environment.temperature', 'pipeline.photon_collection.lamp_a.arguments.level', 'pipeline.photon_collection.lamp_b.arguments.level'],
             ['pipeline.photon_collection.lamp_a.arguments.level', 'detector.environment.temperature', 'pipeline.photon_collection.lamp_b.arguments.level'],
             ['pipeline.photon_collection.lamp_a.arguments.level', 'pipeline.photon_collection.lamp_b.arguments.level', 'detector.environment.temperature'],
             ['detector.environment.temperature', 'pipeline.photon_collection.lamp_a.arguments.level']):
    got = _get_short_dimension_names_new({k: None for k in keys})
    if list(got) != keys or len(set(got.values())) != len(keys):
        VIOLATED, DETAIL = True, f'keys {keys}: names {dict(got)} (order of the keys changed or names not unique)'; break
if not VIOLATED:
    pipe = DetectionPipeline(photon_collection=[ModelFunction(func='pyxel.models.photon_collection.illumination', name='lamp_a', arguments={'level': 1.0}),
                                                ModelFunction(func='pyxel.models.photon_collection.illumination', name='lamp_b', arguments={'level': 1.0})])
    obs = Observation(parameters=[ParameterValues(key='detector.environment.temperature', values=[100, 200]), ParameterValues(key='pipeline.photon_collection.lamp_a.arguments.level', values=[10.0, 20.0]),
                                  ParameterValues(key='pipeline.photon_collection.lamp_b.arguments.level', values=[1000.0])], readout=Readout(times=[1.0]), with_dask=True)
    dt = pyxel.run_mode(mode=obs, detector=VP.detector(), pipeline=pipe, with_inherited_coords=True)
    ph = dt['/bucket']['photon'] if '/bucket' in dt.groups else dt['photon']
    ph = ph.compute()
    for a in (10.0, 20.0):
        sel = ph.sel({'lamp_a.level': a, 'lamp_b.level': 1000.0}) if 'lamp_a.level' in ph.dims else None
        if sel is None or not np.allclose(np.asarray(sel.values), a + 1000.0):
            VIOLATED, DETAIL = True, f'dask run labelled lamp_a.level={a}, lamp_b.level=1000: photon {None if sel is None else float(np.asarray(sel.values).ravel()[0])}, expected {a + 1000.0}; dims {ph.dims}'; break
""", "expect": "the short dimension names keep the order of the swept keys (the dask task zips them with the value tuple)"}


@unit("C07", "dims.order")
def dims_order(u: Unit):
    """_get_short_dimension_names_new for key lists with and without ambiguous last components, in every position: the result maps the
    SAME keys IN THE SAME ORDER (run_pipelines_with_dask / the per-cell task pair the names with the components of a value tuple by
    position: obligation task.* assumes that order) to pairwise different names — the last component, or <model>.<argument> when two
    keys end alike; 'observation.readout.times' is 'readout_time'."""
    fi = u.fn("pyxel/observation/observation.py::_get_short_dimension_names_new")
    A, B, T, R = "pipeline.photon_collection.lamp_a.arguments.level", "pipeline.photon_collection.lamp_b.arguments.level", "detector.environment.temperature", "observation.readout.times"
    want_name = lambda k, keys: ("readout_time" if k == R else k.split(".")[-1]) if sum(1 for x in keys if x.split(".")[-1] == k.split(".")[-1]) == 1 or k == R else k.split(".")[2] + "." + k.split(".")[4]
    for keys in ([T], [T, A], [A, B], [T, A, B], [A, T, B], [A, B, T], [R, T, A], [T, R, B, A]):
        def setup(ex, keys=keys):
            return [ex.st.alloc(HDict([(VStr(k), VOpaque("ptype", None, {})) for k in keys]))], {}
        tag = "[" + ",".join(k.split(".")[-3] + "." + k.split(".")[-1] if k.startswith("pipeline") else k.split(".")[-1] for k in keys) + "]"
        ps = u.paths(fi, setup, Cfg("real"), label=f"_get_short_dimension_names_new{tag}")
        for p in ps:
            d = p.ex.try_dict(p.value) if p.kind == "return" else None
            if d is None:
                u.oblige(p, f"dims.order{tag}.returns_mapping", False, {"exc": p.exc_name()}, DIMS_REPLAY)
                continue
            got_keys = [str(getattr(k, "v", k)) for k, _ in d]
            got_vals = [str(getattr(v, "v", v)) for _, v in d]
            u.oblige(p, f"dims.order{tag}.keys_in_sweep_order", got_keys == keys, {"keys": str(got_keys)}, DIMS_REPLAY)
            u.oblige(p, f"dims.order{tag}.names", got_vals == [want_name(k, keys) for k in got_keys] and len(set(got_vals)) == len(got_vals), {"names": str(got_vals)}, DIMS_REPLAY)
        u.cover(f"dims.order.cover{tag}", ps, lambda p: p.kind == "return")


# ---- DaskBFE: the batch evaluator returns, candidate by candidate, what problem.fitness returns ---------------------------------------------
BFE_REPLAY = lambda w: {"code": """
import numpy as np, dask
from pyxel.calibration.user_defined import DaskBFE
class Prob:                                   # the interface pygmo hands to a batch evaluator
    def get_nx(self): return 2
    def get_nf(self): return 1
    def fitness(self, x):
        a, b = float(x[0]), float(x[1])
        if a < 0: return np.array([float('nan')])
        if b < 0: return np.array([float('inf')])
        return np.array([100.0 * a + b])
dvs = np.array([[1.0, 2.0], [-1.0, 3.0], [4.0, -5.0], [0.5, 0.25], [-2.0, -2.0], [7.0, 8.0], [9.0, 1.0]])
want = np.array([Prob().fitness(x)[0] for x in dvs])
VIOLATED, DETAIL = False, 'the batch evaluator returns the fitness of every candidate, in order, unchanged'
for chunk in (None, 1, 2, 3, 50):
    for sched in ('synchronous', 'threads'):
        with dask.config.set(scheduler=sched):
            got = np.asarray(DaskBFE(chunk_size=chunk)(Prob(), dvs.ravel()))
        if got.shape != want.shape or not np.array_equal(got, want, equal_nan=True):
            VIOLATED, DETAIL = True, f'chunk_size={chunk}, scheduler={sched}: batch {got.tolist()}, one by one {want.tolist()}'; break
    if VIOLATED: break
""", "expect": "DaskBFE(prob, dvs) == [prob.fitness(dv) for dv in dvs] for every chunk size and scheduler, NaN and infinities included"}


@unit("C07", "bfe.values")
def bfe_values(u: Unit):
    """DaskBFE.__call__ with dask as boundary: the vector handed back is the FLATTENED result of the generalised function built from
    `problem.fitness` applied to the candidates reshaped to (n, nx) -- nothing else touches the values between the evaluation and the return
    (no clipping, replacement or re-ordering: batch and one-by-one evaluation rank the candidates alike). Any other construction is
    undecided and the bounded native scenario (7 candidates incl. NaN / inf fitness x 5 chunk sizes x 2 schedulers) decides."""
    fi = u.fn("pyxel/calibration/user_defined.py::DaskBFE.__call__")
    bci = u.cls("pyxel/calibration/user_defined.py::DaskBFE")
    cfg = Cfg("real")
    boundary.install(cfg, prefixes=("dask.", "xarray.", "pandas."))
    psq = "pyxel/calibration/user_defined.py::ProblemSerializable.__init__"
    try:
        u.world.function(psq)
        cfg.contracts[psq] = Contract(psq, lambda ex, args, kwargs, fr: (ex.st.cell(args[0]).fields.__setitem__("wrapped", args[1]), NONE)[1], "pickle wrapper of the problem")
    except Exception:
        pass
    base_call = cfg.lib_overrides[("call", "xr")]

    def call(ex, f, args, kwargs, fr):
        lab = str(f.info.get("label", ""))
        if lab.endswith(".get_nx") or lab.endswith(".get_nf"):          # pygmo: dimension of the problem / number of objectives, positive integers
            t = z3.Int("problem_" + lab.rsplit(".", 1)[1])
            ex.st.assume(t >= 1)
            return VInt(t)
        return base_call(ex, f, args, kwargs, fr)
    cfg.lib_overrides[("call", "xr")] = call
    for chunk in ("none", "given"):
        def setup(ex, chunk=chunk):
            me = ex.st.alloc(HObj(bci, {"_chunk_size": NONE if chunk == "none" else VInt(z3.Int("chunk_size"))}))
            ex.st.assume(z3.Int("chunk_size") >= 1)
            ex.prob = VOpaque("xr", None, {"label": "prob", "truthy": True})
            ex.dvs = VOpaque("xr", None, {"label": "dvs_1d", "truthy": True})
            return [me], {"prob": ex.prob, "dvs_1d": ex.dvs}
        ps = u.paths(fi, setup, cfg, label=f"DaskBFE.__call__[chunk {chunk}]")
        for p in ps:
            if p.kind != "return":
                continue                                   # an exception of the boundary is logged and re-raised (C09)
            v = p.value
            fn_ = v.info.get("fn") if isinstance(v, VOpaque) else None
            flat = fn_ is not None and str(fn_.info.get("attr")) in ("ravel", "flatten") and not v.info.get("args") or (fn_ is not None and str(fn_.info.get("attr")) == "reshape")
            src = fn_.info.get("of") if flat else None
            from_gufunc = isinstance(src, VOpaque) and isinstance(src.info.get("fn"), VOpaque) and "gufunc" in str(src.info["fn"].info.get("label", ""))
            if not (flat and from_gufunc):
                u.undecide(f"bfe.values.returned_as_evaluated[chunk {chunk}]", fi.qualname, f"the returned vector is not the flattened result of the generalised fitness function: {str(getattr(v, 'info', {}).get('label'))[:120]}")
                continue
            g = src.info["fn"]
            first = (g.info.get("args") or [None])[0] if g.info.get("args") else (g.info.get("kwargs") or {}).get("pyfunc")
            ok_f = (isinstance(first, VOpaque) and str(first.info.get("attr", "")) == "fitness") or (isinstance(first, VFunc) and first.fi.name == "fitness")
            u.oblige(p, f"bfe.values.returned_as_evaluated[chunk {chunk}]", bool(ok_f), {}, BFE_REPLAY)
        u.cover(f"bfe.values.cover[chunk {chunk}]", ps, lambda p: p.kind == "return")


STANDIN = dict(globals().get("STANDIN", {}), **{r"bfe\.values": BFE_REPLAY, r"fileindex\.passed_per_chunk": ONE_TASK_REPLAY, r"fileindex\.injective": FILEINDEX_REPLAY})
