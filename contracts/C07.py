"""C07 — parallel execution yields the same results as sequential execution  (PARTIAL: necessary conditions only).

Contracts describe ONE sequential execution; "any scheduler, any worker count, any completion order" is a quantifier over
schedules that contract-based deductive verification cannot decide, and dask / pygmo are external. What IS decided:
  parallel.params[mode]   the parameter array handed to the parallel machinery enumerates the same space as the sequential
                          path (same contracts as C05; sequential mode is a known finding)
  task.copy / *.separate  Processor.replace / __deepcopy__ give a copy that shares no mutable object (bucket arrays, argument
                          lists / dictionaries, detector memory) with the template processor read by all tasks (C06's unit)
  task.isolated           the function that dask applies per parameter cell works on its own copy of the processor
                          (Processor.replace), a new Readout, files carrying its own index, and
                          passes the shared processor / readout / outputs on without writing them (data-flow obligations)
  task.same_as_sequential the per-cell task calls exposure.run_pipeline with the same seed / readout / inherited-coordinates
                          arguments as the sequential path does
  fileindex.injective     output file indices are arange(size).reshape(shape): one distinct suffix per parameter cell
  islands.order           islands are created by executor.map over the seed list (order preserving) and pushed back in
                          iteration order
Unverified premises, reported: the process-wide random generator is shared by threads; dask places chunk outputs by
position; pygmo/dask evaluation of candidates is order-insensitive.
"""
from __future__ import annotations

import ast

from .common import *  # noqa: F401,F403
from . import C05, C06, boundary
from . import defuse as DU

OD = "pyxel/observation/observation_dask.py"
LEVEL = "other"
BOUNDED = {
    r'islands\.build': 'archipelagos of 1 and 3 islands (every seed)',
    r'^task': 'tasks with 1..2 swept parameters; processor family as in C06',
    r'^parallel\.params': 'parameter spaces as in C05',
}      # unit-name / obligation-name patterns -> the family these obligations are proved for
TRUSTED = ["NOT DECIDED by this technique: independence from the dask scheduler, worker count and completion order (quantifier over schedules; concurrency is outside "
           "sequential contracts)", "dask calls the task once per chunk and places outputs by chunk position; executor.map preserves order; pygmo evaluation is order-insensitive",
           "threads share the process-wide numpy generator when a seed is set (unverified premise of non-interference)"]
EXPLANATION = "Only necessary conditions of the property are decided (frame-disjointness premises and equality of the enumerated parameter space)."

unit("C07", "parallel.params")(C05.parallel_params)
# the copy each task works on (Processor.replace -> Processor.__deepcopy__ -> ModelGroup / ModelFunction / Arguments copies)
# shares no mutable object with the template processor that all concurrently running tasks read: same obligations as C06
unit("C07", "task.copy")(C06.deepcopy_unit)
from pyvc import verify as _verify  # noqa: E402
unit("C07", "task.replace")(dict(_verify.UNITS["C06"])["replace"])      # Processor.replace: ALWAYS a separate, structurally equal copy with the values applied


def _roots_written(fn_node, names):
    writes = []
    for n in ast.walk(fn_node):
        if isinstance(n, (ast.Assign, ast.AugAssign, ast.AnnAssign)):
            for t in (n.targets if isinstance(n, ast.Assign) else [n.target]):
                root = t
                while isinstance(root, (ast.Attribute, ast.Subscript)):
                    root = root.value
                if isinstance(t, (ast.Attribute, ast.Subscript)) and isinstance(root, ast.Name) and root.id in names:
                    writes.append(ast.unparse(t))
    return writes


@unit("C07", "task")
def task(u: Unit):
    """The per-cell task, by symbolic execution of the real `_run_pipelines_array_to_datatree` (1 and 2 parameters, symbolic
    keys and values; processor / readout / outputs are boundary objects whose method calls are recorded)."""
    fa = u.fn(f"{OD}::_run_pipelines_array_to_datatree")
    for n in (1, 2):
        cfg = Cfg("real")
        boundary.install(cfg)
        rec = {}

        def run_pipe(ex, args, kwargs, fr, rec=rec):
            rec.setdefault("runs", []).append(dict(kwargs))
            return VOpaque("xr", ex.st.fresh_int("tree"), {"label": "data_tree"})
        cfg.contracts["pyxel/exposure/exposure.py::run_pipeline"] = Contract("pyxel/exposure/exposure.py::run_pipeline", run_pipe, "exposure (C02)")
        keys = [VStr(z3.String(f"dim_key{i}")) for i in range(n)]
        vals = [VInt(z3.Int(f"param{i}")) for i in range(n)]
        shared = {}

        def setup(ex, n=n, rec=rec, shared=shared):
            rec.clear()
            if n == 2:
                ex.st.assume(keys[0].v != keys[1].v)
            o = lambda l: VOpaque("xr", ex.st.fresh_int("xr"), {"label": l, "truthy": True})
            shared.update(processor=o("processor"), readout=o("readout"), outputs=o("outputs"))
            dn = ex.st.alloc(HDict([(k, VStr(f"short{i}")) for i, k in enumerate(keys)]))
            return [], {"params_tuple": VTuple(list(vals)), "output_filename_suffix": VInt(z3.Int("file_index")), "dimension_names": dn,
                        "processor": shared["processor"], "readout": shared["readout"], "outputs": shared["outputs"], "pipeline_seed": VInt(z3.Int("seed")),
                        "progressbar": VBool(False)}
        ps = u.paths(fa, setup, cfg, label=f"_run_pipelines_array_to_datatree[{n}]")
        n_ret = 0
        for p in ps:
            if p.kind != "return":
                continue        # NotImplementedError for unsupported readout keys: no run
            n_ret += 1
            runs = rec.get("runs", [])
            u.oblige(p, f"task.isolated[one exposure per cell:{n}]", bool(len(runs) == 1), {})
            if len(runs) != 1:
                continue
            kw = runs[0]
            reps = [e for e in p.st.events if e[0] == "xr_call" and str(e[1]) == "processor.replace"]
            proc = kw.get("processor")
            ok = len(reps) == 1 and isinstance(proc, VOpaque) and proc.info.get("fn") is not None and proc.info["fn"].info.get("of") is shared["processor"] and proc is not shared["processor"]
            if ok:
                d = p.ex.try_dict(reps[0][2][0]) if reps[0][2] else None
                ok = d is not None and len(d) == n and all(z3.eq(z_str(k.v), z_str(keys[i].v)) and v is vals[i] for i, (k, v) in enumerate(d))
            u.oblige(p, f"task.isolated[own processor copy:{n}]", bool(ok), {})
            u.oblige(p, f"task.isolated[own file index:{n}]", bool(kw.get("output_filename_suffix") is not None and isinstance(kw["output_filename_suffix"], VInt) and z3.eq(z_int(kw["output_filename_suffix"].v), z3.Int("file_index"))), {})
            u.oblige(p, f"task.same_as_sequential[seed:{n}]", bool(isinstance(kw.get("pipeline_seed"), VInt) and z3.eq(z_int(kw["pipeline_seed"].v), z3.Int("seed"))), {})
            ro = kw.get("readout")
            chain_ok = ro is shared["readout"]
            if not chain_ok and isinstance(ro, VOpaque):        # a NEW readout made by Readout.replace(times=<this cell's value>)
                fn_ = ro.info.get("fn")
                chain_ok = fn_ is not None and str(fn_.info.get("attr")) == "replace" and set(ro.info.get("kwargs", {})) == {"times"} and any(ro.info["kwargs"]["times"] is v for v in vals)
            u.oblige(p, f"task.same_as_sequential[readout:{n}]", bool(chain_ok), {})
            u.oblige(p, f"task.isolated[shared outputs passed on:{n}]", bool(kw.get("outputs") is shared["outputs"]), {})
            wr = [e for e in p.st.events if e[0] in ("xr_setattr", "xr_setitem") and any(e[-1] is shared[k] for k in shared)]
            u.oblige(p, f"task.isolated[writes no shared object:{n}]", bool(not wr), {})
        u.cover(f"task.cover[{n}]", [1] * n_ret, lambda _: True)
    # the dask task wrapper forwards its cell's arguments unchanged (data-flow, def-use resolved)
    ft = u.fn(f"{OD}::_run_pipelines_tuple_to_array")
    cs = DU.calls(ft.node, "_run_pipelines_array_to_datatree")
    kw = DU.kw_args(ft.node, cs[0]) if len(cs) == 1 else {}
    want = {"params_tuple": "params_tuple", "output_filename_suffix": "output_filename_suffixes", "processor": "processor", "readout": "readout", "outputs": "outputs",
            "pipeline_seed": "pipeline_seed", "dimension_names": "dimension_names"}
    u.static("task.tuple_wraps_array", len(cs) == 1 and all(kw.get(k) == v for k, v in want.items()), ft.qualname,
             f"the dask task forwards its cell's parameters, file index and the shared (read-only) objects to the per-cell function: {kw}")
    for q in ("_run_pipelines_array_to_datatree", "_run_pipelines_tuple_to_array"):
        fn = u.fn(f"{OD}::{q}")
        writes = _roots_written(fn.node, ("processor", "readout", "outputs", "dimension_names", "output_dimensions"))
        u.static(f"task.isolated[{q} writes no shared object]", not writes, fn.qualname, f"assignments into shared arguments: {writes}")


@unit("C07", "fileindex")
def fileindex(u: Unit):
    fn = u.fn(f"{OD}::run_pipelines_with_dask")
    cs = DU.calls(fn.node, "apply_ufunc")
    pos = DU.pos_args(fn.node, cs[0]) if len(cs) == 1 else []
    # the file-index array: may be bound in a branch (`if outputs:`), so look at every binding of the name passed
    idx_exprs = []
    if len(pos) >= 3:
        name = ast.unparse(cs[0].args[2])
        for n in ast.walk(fn.node):
            if isinstance(n, (ast.Assign, ast.AnnAssign)) and n.value is not None and not (isinstance(n.value, ast.Constant) and n.value.value is None):
                tgt = n.targets[0] if isinstance(n, ast.Assign) else n.target
                if isinstance(tgt, ast.Name) and tgt.id == name:
                    idx_exprs.append(DU.norm(fn.node, n.value))
        if not idx_exprs:
            idx_exprs = [pos[2]]
    P = "parameter_mode.create_params(dim_names=dim_names)"        # the parameter array (locals resolved)
    inj = bool(idx_exprs) and all(f"np.arange({P}.size).reshape({P}.shape)" in e and f"dims={P}.dims" in e and e.endswith(".chunk(1)") for e in idx_exprs)
    u.static("fileindex.injective", inj, fn.qualname,
             f"file indices = arange(size).reshape(shape) on the dims of the parameter array, one chunk per cell: {idx_exprs}",
             replay=lambda w: {"code": "VIOLATED, DETAIL = False, 'structural obligation on run_pipelines_with_dask (see detail)'", "expect": "one file index per parameter cell"})
    u.static("fileindex.passed_per_chunk", len(pos) >= 3 and pos[0] == "_run_pipelines_tuple_to_array" and pos[1] == P + ".chunk(1)", fn.qualname,
             f"apply_ufunc(task, parameters chunked one cell per task, file indices): {pos[:3]}")
    kd = DU.dict_arg(fn.node, next((k.value for k in cs[0].keywords if k.arg == "kwargs"), None)) if len(cs) == 1 else None
    want = {"dimension_names": "dim_names", "processor": "processor", "outputs": "outputs", "readout": "readout", "pipeline_seed": "pipeline_seed"}
    u.static("task.shared_arguments_forwarded", kd is not None and all(kd.get(k) == v for k, v in want.items()), fn.qualname, f"kwargs of apply_ufunc: {kd}")


@unit("C07", "islands")
def islands(u: Unit):
    fb = u.fn("pyxel/calibration/archipelago_datatree.py::ArchipelagoDataTree._build")
    maps = [c for c in ast.walk(fb.node) if isinstance(c, ast.Call) and (ast.unparse(c.func) == "map" or ast.unparse(c.func).endswith(".map"))]
    ok_maps = len(maps) >= 1 and all(len(c.args) == 2 and ast.unparse(c.args[0]) == "create_island" and ast.unparse(c.args[1]) == "seeds" for c in maps)
    loops = [n for n in ast.walk(fb.node) if isinstance(n, ast.For) and any(isinstance(c, ast.Call) and ast.unparse(c.func).endswith("push_back") for c in ast.walk(n))]
    ok_loops = len(loops) == len(maps) and all(
        len([c for c in ast.walk(l) if isinstance(c, ast.Call) and ast.unparse(c.func).endswith("push_back")]) == 1 and
        any(isinstance(c, ast.Call) and ast.unparse(c.func).endswith("push_back") and len(c.args) == 1 and ast.unparse(c.args[0]) == ast.unparse(l.target) for c in ast.walk(l))
        for l in loops)
    u.static("islands.order", ok_maps and ok_loops, fb.qualname, "islands come from (executor.)map(create_island, seeds) and each one is pushed back once, in iteration order, with and without threads")


from . import calibreport as _CR7  # noqa: E402
unit("C07", "islands.build")(_CR7.build_unit)              # _build executed: island seeds / order / settings (1 and 3 islands, every seed)
