"""Library contract for astropy.units.Quantity / Unit / astropy.constants (used by the dark-current model).

A quantity is a boundary object  VOpaque("qty", info={"value": <number | array>, "unit": {base: exponent}})  whose VALUE is
carried exactly (real arithmetic, pointwise for arrays) and whose UNIT is tracked as a product of base-unit powers:
    *, /, ** constant   combine values and add / scale the exponents;
    +, -                convert the right operand to the left operand's unit;
    q.to(u), np.exp(q)  convert to u (np.exp: to dimensionless).
A conversion between two DIFFERENT unit products multiplies the value by an uninterpreted positive constant named after
both products (conv[from->to]): the contract does not know that 1 nA = 1e-9 A, it only knows that the factor is a constant
of the two units, i.e. independent of every value. That is all the C17 argument needs (the increment is the product of the
time step and something that does not contain the clock). Not modelled (stated): UnitConversionError for incompatible
dimensions, equivalencies, structured units.
"""
from __future__ import annotations

import re
from fractions import Fraction

from .common import *  # noqa: F401,F403
from pyvc.ops import uexp, upow

CONST = {"astropy.constants.k_B": ("k_B", {"J": Fraction(1), "K": Fraction(-1)}), "astropy.constants.e": ("e_charge", {"C": Fraction(1)}),
         "astropy.constants.si.k_B": ("k_B", {"J": Fraction(1), "K": Fraction(-1)}), "astropy.constants.si.e": ("e_charge", {"C": Fraction(1)})}


def parse_unit(text: str) -> dict:
    """'electron / (pix s)', 'nA / cm2', 'eV / K', 'um' -> {base: exponent}"""
    toks = re.findall(r"[A-Za-z]+\d*|[()/*]|\*\*", text)
    pos = 0

    def product():
        nonlocal pos
        out = {}
        sign = 1
        while pos < len(toks) and toks[pos] != ")":
            t = toks[pos]
            pos += 1
            if t == "/":
                sign = -1
                continue
            if t == "*":
                continue
            if t == "(":
                inner = product()
                pos += 1
            else:
                m = re.fullmatch(r"([A-Za-z]+?)(\d*)", t)
                inner = {m.group(1): Fraction(int(m.group(2) or 1))}
            for k, v in inner.items():
                out[k] = out.get(k, 0) + sign * v
            # astropy: 'a / b c' is not allowed without parentheses; a '/' applies to the next factor only
            sign = 1
        return {k: v for k, v in out.items() if v != 0}
    return product()


def urepr(u: dict) -> str:
    return "*".join(f"{k}^{v}" for k, v in sorted(u.items())) or "1"


def mk(ex, value, unit):
    return VOpaque("qty", ex.st.fresh_int("qty"), {"value": value, "unit": {k: v for k, v in unit.items() if v != 0}})


def is_q(v):
    return isinstance(v, VOpaque) and v.kind == "qty"


def conv(ex, frm: dict, to: dict):
    if frm == to:
        return None
    c = z3.Real(f"conv[{urepr(frm)}->{urepr(to)}]")
    ex.st.assume(c > 0)
    return VFloat(c)


def vmul(ex, a, b, op=None):
    return ex.binop(op or ast.Mult(), a, b, None)


def vdiv(ex, a, b):
    """numpy division of values: no ZeroDivisionError (x / 0 is inf or nan in binary64; in the real-number mode it is an unspecified
    but fixed value of x)."""
    if ex.is_arr(a) or ex.is_arr(b):
        return ex.binop(ast.Div(), a, b, None)
    from pyvc.ops import to_real, wrap_float
    return wrap_float(ex.cfg, to_real(a) / to_real(b))


def convert(ex, q, to: dict):
    c = conv(ex, q.info["unit"], to)
    return q.info["value"] if c is None else vmul(ex, q.info["value"], c)


def as_q(ex, v):
    """operand of a binary operator -> (value, unit)"""
    if is_q(v):
        return v.info["value"], v.info["unit"]
    return v, {}


def _binop(ex, op, a, b):
    (va, ua), (vb, ub) = as_q(ex, a), as_q(ex, b)
    if isinstance(op, ast.Mult):
        return mk(ex, vmul(ex, va, vb), {k: ua.get(k, 0) + ub.get(k, 0) for k in set(ua) | set(ub)})
    if isinstance(op, ast.Div):
        return mk(ex, vdiv(ex, va, vb), {k: ua.get(k, 0) - ub.get(k, 0) for k in set(ua) | set(ub)})
    if isinstance(op, (ast.Add, ast.Sub)):
        if ua != ub:
            c = conv(ex, ub, ua)
            vb = vmul(ex, vb, c)
        return mk(ex, ex.binop(op, va, vb, None), ua)
    if isinstance(op, ast.Pow) and not is_q(b) and isinstance(b, (VInt, VFloat)) and is_conc(b.v):
        e = Fraction(b.v).limit_denominator(64)
        if ex.is_arr(va):
            raise Unsupported("array quantity ** exponent")
        from pyvc.ops import arith
        val = arith(ex.cfg, ast.Pow(), va if isinstance(va, VFloat) else VFloat(va.v if not is_conc(va.v) else float(va.v)), VFloat(float(b.v)))
        return mk(ex, val, {k: v * e for k, v in ua.items()})
    raise Unsupported(f"Quantity operator {type(op).__name__}")


def _neg(ex, v):
    from pyvc.ops import neg
    val = v.info["value"]
    return mk(ex, ex.lib.arr_unary(ex, "neg", val) if ex.is_arr(val) else neg(ex.cfg, val), v.info["unit"])


def _unit_of(ex, u):
    if isinstance(u, VStr) and is_conc(u.v):
        return parse_unit(u.v)
    if is_q(u):
        return u.info["unit"]
    raise Unsupported(f"unit {u!r}")


def _quantity(ex, f, args, kwargs, fr):
    v = args[0]
    unit = kwargs.get("unit", args[1] if len(args) > 1 else None)
    if isinstance(v, VLib) and v.name in CONST:
        name, u = CONST[v.name]
        c = z3.Real(name)
        ex.st.assume(c > 0)
        return mk(ex, VFloat(c), u)
    if is_q(v):
        return v if unit is None else mk(ex, convert(ex, v, _unit_of(ex, unit)), _unit_of(ex, unit))
    if isinstance(v, VInt):
        v = VFloat(float(v.v)) if is_conc(v.v) else VFloat(z3.ToReal(v.v))
    if not (isinstance(v, VFloat) or ex.is_arr(v)):
        raise Unsupported(f"Quantity({v!r})")
    return mk(ex, v, {} if unit is None or isinstance(unit, VNone) else _unit_of(ex, unit))


def _unit(ex, f, args, kwargs, fr):
    return mk(ex, VFloat(1.0), _unit_of(ex, args[0]))


def _attr(ex, obj, name, fr):
    if name == "to":
        return VLib("qty.to", obj)
    if name == "value":
        return obj.info["value"]
    if name in ("shape", "ndim", "dtype") and ex.is_arr(obj.info["value"]):
        return ex.getattr(obj.info["value"], name, fr)
    raise Unsupported(f"Quantity.{name}")


def _to(ex, f, args, kwargs, fr):
    q = f.self_val
    to = _unit_of(ex, args[0] if args else kwargs["unit"])
    return mk(ex, convert(ex, q, to), to)


def _np_wrap(name, dimensionless):
    def h(ex, f, args, kwargs, fr):
        if args and is_q(args[0]):
            q = args[0]
            val = convert(ex, q, {}) if dimensionless else q.info["value"]
            if not ex.is_arr(val) and name == "exp":
                from pyvc.ops import to_real, wrap_float
                return mk(ex, wrap_float(ex.cfg, uexp(to_real(val))), {})
            r = ex.lib.call(ex, f, [val] + list(args[1:]), kwargs, fr)
            return mk(ex, r, {}) if dimensionless else r
        return ex.lib.call(ex, f, args, kwargs, fr)
    return h


def install(cfg: Cfg):
    cfg.lib_overrides["astropy.units.Quantity"] = _quantity
    cfg.lib_overrides["astropy.units.Unit"] = _unit
    cfg.lib_overrides["qty.to"] = _to
    cfg.lib_overrides[("binop", "qty")] = _binop
    cfg.lib_overrides[("neg", "qty")] = _neg
    cfg.lib_overrides[("opaque_attr", "qty")] = _attr
    cfg.lib_overrides["numpy.exp"] = _np_wrap("exp", True)
    cfg.lib_overrides["numpy.asarray"] = _np_wrap("asarray", False)
    cfg.lib_overrides["numpy.isinf"] = _np_wrap("isinf", False)
    return cfg
