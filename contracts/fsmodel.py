"""Ghost file system for the output / input contracts.

FS : Array(String -> Int)   path text -> content id (0 = absent).  Library contracts (trusted):
  Path(p) / joinpath / "/" : text concatenation with "/" ; resolve() = identity on the absolute paths used here
  Path.exists()            : FS[p] != 0
  Path.mkdir(parents=True, exist_ok=False) : ATOMIC — raises FileExistsError iff FS[p] != 0, else creates p
  np.save / np.savetxt / PIL Image.save / DataFrame.to_csv / h5py.File(.., "w") : create OR TRUNCATE
  astropy fits writeto(overwrite=False) : raises OSError iff the file exists, else creates it
Every operation appends an event (kind, path term, FS before) to ex.st.events. With `interference=True` the file
system is replaced before every operation by an arbitrary SUPERSET (other runs may add files at any time).
"""
from __future__ import annotations

from .common import *  # noqa: F401,F403

FS_SORT = z3.ArraySort(z3.StringSort(), z3.IntSort())
STAT_M = z3.Function("stat_mtime_ns", z3.StringSort(), z3.IntSort(), z3.IntSort())
STAT_S = z3.Function("stat_size", z3.StringSort(), z3.IntSort(), z3.IntSort())
content_of = z3.Function("content_of", z3.IntSort(), z3.IntSort())       # content id of a data object (never 0)


def fs(ex):
    if "FS" not in ex.st.ghost:
        ex.st.ghost["FS"] = z3.Const("FS0", FS_SORT)
    return ex.st.ghost["FS"]


def interfere(ex):
    if not ex.st.ghost.get("FS_INTERFERENCE"):
        return
    old = fs(ex)
    new = z3.Const(ex.st.fresh_name("FS"), FS_SORT)
    q = z3.String("q_path")
    ex.st.assume(z3.ForAll([q], z3.Implies(z3.Select(old, q) != 0, z3.Select(new, q) == z3.Select(old, q))))
    ex.st.ghost["FS"] = new


def mk_path(ex, text):
    return VOpaque("path", None, {"text": text})


def path_text(v):
    if isinstance(v, VOpaque) and v.kind == "path":
        return v.info["text"]
    if isinstance(v, VStr):
        return z_str(v.v)
    raise Unsupported(f"not a path: {v!r}")


def _join(a, b):
    return z3.Concat(z_str(a), z3.StringVal("/"), z_str(b))


def path_attr(ex, obj, name, fr):
    t = obj.info["text"]
    if name in ("joinpath", "resolve", "exists", "mkdir", "expanduser", "is_file", "with_suffix", "stat", "unlink", "rmdir"):
        return VLib("path." + name, obj)
    if name in ("suffix", "stem", "name", "parent") and (is_conc(t) or z3.is_string_value(z3.simplify(t))):
        import pathlib
        pp = pathlib.PurePosixPath(t if is_conc(t) else z3.simplify(t).as_string())
        return mk_path(ex, str(pp.parent)) if name == "parent" else VStr(getattr(pp, name))
    if name in ("suffix", "stem", "name", "parent"):
        h = ex.cfg.lib_overrides.get(("path_part", name))
        if h is not None:
            return h(ex, obj)
        raise Unsupported(f"Path.{name} of a symbolic path")
    raise Unsupported(f"Path.{name}")


def install(cfg: Cfg):
    cfg.lib_overrides[("opaque_attr", "path")] = path_attr
    cfg.lib_overrides["pathlib.Path"] = lambda ex, f, args, kwargs, fr: args[0] if isinstance(args[0], VOpaque) and args[0].kind == "path" else mk_path(ex, path_text(args[0]))
    cfg.lib_overrides["path.joinpath"] = lambda ex, f, args, kwargs, fr: mk_path(ex, _join(path_text(f.self_val), path_text(args[0])))
    cfg.lib_overrides[("binop", "path")] = lambda ex, op, a, b: mk_path(ex, _join(path_text(a), path_text(b)))
    def with_suffix(ex, f, args, kwargs, fr):
        """pathlib: the final component's suffix (from its LAST dot, unless that dot leads or ends the name) is replaced by the new
        suffix; a name without such a dot gets the suffix appended."""
        t = path_text(f.self_val)
        suf = z_str(args[0].v if isinstance(args[0], VStr) else path_text(args[0]))
        slash = z3.LastIndexOf(t, z3.StringVal("/"))
        start = z3.If(slash < 0, z3.IntVal(0), slash + 1)
        name = z3.SubString(t, start, z3.Length(t) - start)
        dot = z3.LastIndexOf(name, z3.StringVal("."))
        has = z3.And(dot > 0, dot < z3.Length(name) - 1)
        stem = z3.If(has, z3.SubString(name, 0, dot), name)
        return mk_path(ex, z3.Concat(z3.SubString(t, 0, start), stem, suf))
    cfg.lib_overrides["path.with_suffix"] = with_suffix
    cfg.lib_overrides["path.resolve"] = lambda ex, f, args, kwargs, fr: f.self_val
    cfg.lib_overrides["path.expanduser"] = lambda ex, f, args, kwargs, fr: f.self_val
    cfg.lib_overrides[("truth", "path")] = lambda ex, v: True
    cfg.lib_overrides[("len", "path")] = lambda ex, v, fr: VInt(z3.Length(path_text(v)))

    def exists(ex, f, args, kwargs, fr):
        interfere(ex)
        p = path_text(f.self_val)
        ex.st.events.append(("exists", p, fs(ex)))
        return VBool(z3.Select(fs(ex), p) != 0)

    def mkdir(ex, f, args, kwargs, fr):
        interfere(ex)
        p = path_text(f.self_val)
        before = fs(ex)
        exist_ok = kwargs.get("exist_ok", VBool(False))
        ok = ex.truth(exist_ok)
        if not (ok is True):
            if ex.st.branch(z3.Select(before, p) != 0):
                ex.st.events.append(("mkdir_refused", p, before))
                ex.throw("FileExistsError", "File exists")
        ex.st.ghost["FS"] = z3.Store(before, p, z3.If(z3.Select(before, p) != 0, z3.Select(before, p), z3.IntVal(1)))
        ex.st.events.append(("mkdir", p, before, ok is True))
        return NONE
    # stat(): (st_mtime_ns, st_size) are ghost functions of (path, rewrite epoch of the file system)
    def stat(ex, f, args, kwargs, fr):
        return VOpaque("statres", None, {"text": path_text(f.self_val), "epoch": ex.st.ghost.get("FILE_EPOCH", z3.IntVal(0))})
    cfg.lib_overrides["path.stat"] = stat
    cfg.lib_overrides[("opaque_attr", "statres")] = lambda ex, obj, name, fr: VInt({"st_mtime_ns": STAT_M, "st_size": STAT_S}[name](obj.info["text"], obj.info["epoch"])) \
        if name in ("st_mtime_ns", "st_size") else ex.throw("AttributeError", name)
    cfg.lib_overrides[("str_of", "path")] = lambda ex, v: VStr(path_text(v))
    def unlink(ex, f, args, kwargs, fr):
        """Path.unlink([missing_ok]) / rmdir: the entry is gone afterwards; FileNotFoundError when absent and not missing_ok.
        Recorded as a 'delete' event with the file system as it was just before (C19: nothing that existed before the call is deleted)."""
        interfere(ex)
        p = path_text(f.self_val)
        before = fs(ex)
        missing_ok = kwargs.get("missing_ok", args[0] if args else VBool(False))
        if ex.truth(missing_ok) is not True:
            if ex.st.branch(z3.Select(before, p) == 0):
                ex.throw("FileNotFoundError", "no such file")
        ex.st.ghost["FS"] = z3.Store(before, p, z3.IntVal(0))
        ex.st.events.append(("delete", p, before))
        return NONE
    cfg.lib_overrides["path.unlink"] = unlink
    cfg.lib_overrides["path.rmdir"] = unlink
    cfg.lib_overrides["path.exists"] = exists
    cfg.lib_overrides["path.mkdir"] = mkdir
    cfg.lib_overrides[("format_path",)] = lambda ex, v: path_text(v)
    return cfg


def write(ex, path_val, data_id, mode):
    """mode 'truncate': create or overwrite; 'exclusive': raise OSError if present."""
    interfere(ex)
    p = path_text(path_val)
    before = fs(ex)
    if mode == "exclusive":
        if ex.st.branch(z3.Select(before, p) != 0):
            ex.st.events.append(("write_refused", p, before))
            ex.throw("OSError", "file exists")
    ex.st.ghost["FS"] = z3.Store(before, p, data_id)
    ex.st.events.append(("write", p, before, mode, data_id))
