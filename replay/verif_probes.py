"""Probe models for replays (importable as `verif_probes` because /verif/replay is on PYTHONPATH)."""
LOG = []


class ProbeError(Exception):
    pass


def detector(rows=3, cols=4, kind="CCD", pixel_vert_size=1.0, pixel_horz_size=1.0, **chars):
    from pyxel.detectors import CCD, CCDGeometry, Characteristics, Environment
    return CCD(geometry=CCDGeometry(row=rows, col=cols, pixel_vert_size=pixel_vert_size, pixel_horz_size=pixel_horz_size, total_thickness=1.0),
               environment=Environment(), characteristics=Characteristics(**chars))


def _snap(detector):
    import numpy as np
    out = {}
    for name in ("photon", "pixel", "signal", "image"):
        c = getattr(detector, name, None)
        a = getattr(c, "_array", None)
        out[name] = None if a is None else np.array(a).copy()
    try:
        out["charge"] = detector.charge.array.copy()
        out["charge_frame_len"] = len(detector.charge.frame)
    except Exception:
        out["charge"] = None
    try:
        out["scene_empty"] = len(detector.scene.data.children) == 0 if hasattr(detector.scene.data, "children") else None
    except Exception:
        out["scene_empty"] = None
    return out


def _clock(detector):
    out = {}
    for k in ("time", "time_step", "absolute_time", "pipeline_count", "is_first_readout", "is_last_readout", "start_time", "read_out"):
        try:
            out[k] = getattr(detector, k)
        except Exception as e:
            out[k] = f"<{type(e).__name__}>"
    return out


def probe(detector, **kwargs):
    LOG.append({"name": detector.current_running_model_name, "kwargs": dict(kwargs), "detector": detector,
                "clock": _clock(detector) if detector._readout_properties is not None else None, "buckets": _snap(detector)})


def failing(detector, **kwargs):
    probe(detector, **kwargs)
    raise ProbeError(f"probe failure in {detector.current_running_model_name}")


def writer(detector, pixel_add=0.0, signal=None, image=None, photon=None, **kwargs):
    """Probe that also writes buckets (used by clock / lifecycle replays)."""
    import numpy as np
    probe(detector, pixel_add=pixel_add, **kwargs)
    shape = detector.geometry.shape
    if photon is not None:
        detector.photon.array = np.full(shape, float(photon))
    if pixel_add:
        detector.pixel.array = detector.pixel.array + float(pixel_add)
    if signal is not None:
        detector.signal.array = np.full(shape, float(signal))
    if image is not None:
        detector.image.array = np.full(shape, int(image), dtype=np.uint16)


def fail_if(detector, level=0, **kwargs):
    """Fails when level == 2 (used to place a fault at a chosen run of a sweep)."""
    probe(detector, level=level, **kwargs)
    if level == 2:
        raise ProbeError(f"probe failure at level {level}")


def fail_at_step(detector, step=0, **kwargs):
    """Fails at the readout step whose pipeline counter equals `step`."""
    probe(detector, step=step, **kwargs)
    if detector.pipeline_count == step:
        raise ProbeError(f"probe failure at readout step {step}")


def draws(detector, fail=False, **kwargs):
    """Probe that draws from the process-wide generator (seeding replays)."""
    import numpy as np
    probe(detector, **kwargs)
    detector.photon.array = np.random.random(detector.geometry.shape)
    if fail:
        raise ProbeError("probe failure after drawing")

STAMPS = []


def stamp(detector, narrow_from=None, dark_steps=None, **kwargs):
    """Writes step-dependent values into every bucket and remembers them (C03 replays). From step `narrow_from` on the float buckets are
    written in single precision (values that binary32 cannot hold exactly are used throughout)."""
    import numpy as np
    probe(detector, **kwargs)
    i = detector.pipeline_count
    if i == 0:
        STAMPS.clear()
    shape = detector.geometry.shape
    ft = np.float32 if (narrow_from is not None and i >= narrow_from) else np.float64
    off = 0.1 if narrow_from is not None else 0.0
    detector.photon.array = np.full(shape, 10.0 + i + off).astype(ft)
    detector.pixel.array = np.full(shape, 20.0 + i + off).astype(ft)
    detector.signal.array = np.full(shape, 0.5 + i + off).astype(ft)
    detector.image.array = np.full(shape, 30 + i, dtype=np.uint16)
    if dark_steps is None or i not in dark_steps:                   # a dark step: no charge at all is generated (the bucket stays all zero)
        detector.charge.add_charge_array(np.full(shape, 40.0 + i))  # in place, as the charge-generation models do
    STAMPS.append({n: np.array(getattr(detector, n).array) for n in ("photon", "pixel", "signal", "image", "charge")})


def set_image_ramp(detector, level=0.0, gain=1.0, **kwargs):
    """Like set_image with a position-dependent offset: image[i, j] = round(level * gain) + 10 * i + j (fit-range replays)."""
    import numpy as np
    probe(detector, level=level, gain=gain, **kwargs)
    r, c = detector.geometry.shape
    detector.image.array = (int(round(level * gain)) + 10 * np.arange(r)[:, None] + np.arange(c)[None, :]).astype(np.uint16)


def set_image(detector, level=0.0, gain=1.0, **kwargs):
    """Deterministic model for calibration replays: image = level * gain everywhere (float image via the pixel/signal
    chain is not needed: the fitness reads the 'image' bucket)."""
    import numpy as np
    probe(detector, level=level, gain=gain, **kwargs)
    detector.image.array = np.full(detector.geometry.shape, int(round(level * gain)), dtype=np.uint16)


CALLS = {"n": 0, "fail_at": None}


def fail_at_call(detector, **kwargs):
    """Raises ProbeError exactly once, on call number CALLS['fail_at'] (faults inside an optimiser's evolve round)."""
    CALLS["n"] += 1
    if CALLS["n"] == CALLS["fail_at"]:
        raise ProbeError(f"probe failure at call {CALLS['n']}")


def remember(detector, level=0, **kwargs):
    """State-keeping probe: reports what earlier invocations left in the detector memory of the detector it is given."""
    seen = detector._memory.setdefault("seen", [])
    LOG.append({"name": detector.current_running_model_name, "level": level, "seen_before": list(seen), "detector": detector})
    seen.append(level)
