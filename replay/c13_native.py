"""Native helpers for C13 replays (run under /venv/bin/python against the real classes)."""
import numpy as np
import xarray as xr

FLOATS = ("float16", "float32", "float64")
UINTS = ("uint8", "uint16", "uint32", "uint64")


def detector(rows, cols, kind="CCD"):
    from pyxel.detectors import CCD, CCDGeometry, Characteristics, Environment, MKID, MKIDGeometry
    if kind == "MKID":
        return MKID(geometry=MKIDGeometry(row=rows, col=cols), environment=Environment(), characteristics=Characteristics())
    return CCD(geometry=CCDGeometry(row=rows, col=cols), environment=Environment(), characteristics=Characteristics())


def container(det, name):
    return getattr(det, name)


def make_value(kind, shape=(), dtype="float64", fill=1.0, rows=2, cols=2):
    if kind == "none":
        return None
    if kind == "float":
        return float(fill)
    if kind == "list":
        return [float(fill)]
    if kind == "xr":
        shape = tuple(shape) if len(shape) == 3 else (2, rows, cols)
        return xr.DataArray(np.full(shape, fill, dtype=dtype if dtype in FLOATS + UINTS + ("int64", "int32") else "float64"),
                            dims=["wavelength", "y", "x"], coords={"wavelength": np.arange(shape[0], dtype=float)})
    if dtype in ("object", "str"):
        return np.full(tuple(shape), str(fill) if dtype == "str" else None, dtype=object if dtype == "object" else str)
    return np.full(tuple(shape), fill).astype(dtype)


def rep(cont, rows, cols, allowed, photon=False):
    """The representation invariant of the statement, evaluated on the real object."""
    a = cont._array
    if a is None:
        return True, "empty"
    if isinstance(a, np.ndarray):
        ok = a.shape == (rows, cols) and str(a.dtype) in allowed
        return ok, f"ndarray shape={a.shape} dtype={a.dtype}"
    if photon and isinstance(a, xr.DataArray):
        ok = a.dims == ("wavelength", "y", "x") and a.sizes["y"] == rows and a.sizes["x"] == cols and str(a.dtype) in allowed
        return ok, f"DataArray dims={a.dims} sizes={dict(a.sizes)} dtype={a.dtype}"
    return False, f"{type(a).__name__}"
