"""Replay runner: executes the scenario of a refuted obligation against the REAL code.

Run with cwd = repository root (so `import pyxel` resolves to the tree under test) under
/venv/bin/python. The scenario's code must set VIOLATED (bool) and DETAIL (str).
Prints one line `REPLAY {json}`; exit 1 if the violation reproduced, 0 otherwise.
"""
import json
import os
import sys
import traceback
import warnings

sys.path.insert(0, os.getcwd())
warnings.filterwarnings("ignore")


def main():
    doc = json.load(open(sys.argv[1]))
    sc = doc.get("scenario") or {}
    env = {"__name__": "__replay__"}
    out = {"obligation": doc.get("obligation")}
    try:
        exec(compile(sc["code"], "<scenario>", "exec"), env)
        out["status"] = "violated" if env.get("VIOLATED") else "held"
        out["detail"] = str(env.get("DETAIL", ""))[:1000]
    except Exception:
        out["status"] = "error"
        out["detail"] = traceback.format_exc()[-1000:]
    import pyxel
    out["pyxel_file"] = os.path.dirname(pyxel.__file__)
    print("REPLAY " + json.dumps(out))
    return 1 if out["status"] == "violated" else 0


if __name__ == "__main__":
    sys.exit(main())
