"""Ground instantiation of the IEEE-754 round-to-nearest facts for the abstract rounding function `fl`
("rnd" arithmetic mode, DESIGN 3.3). Sound over-approximation of binary64 provided nothing overflows,
underflows to subnormals or is NaN (stated as assumption). Facts, instantiated at the fl-terms of a query:
  |fl(a) - a| <= 2^-53 |a| ;  sign preservation ;  monotonicity for every ordered pair of fl-terms ;
  fl(n) = n for integer numerals |n| <= 2^53 and for 0, 1.
"""
import z3

from .ops import fl

U = z3.RealVal(1) / z3.RealVal(2**53)


def _absr(t):
    return z3.If(t >= 0, t, -t)


def fl_terms(es):
    seen = {}

    def walk(t):
        if z3.is_app(t):
            if t.decl().name() == "fl" and t.get_id() not in seen:
                seen[t.get_id()] = t
            for c in t.children():
                walk(c)
    done = set()

    def walk_dag(t):
        stack = [t]
        while stack:
            x = stack.pop()
            if x.get_id() in done:
                continue
            done.add(x.get_id())
            if z3.is_app(x):
                if x.decl().name() == "fl":
                    seen[x.get_id()] = x
                stack.extend(x.children())
    for e in es:
        walk_dag(e)
    return list(seen.values())


def div_terms(es):
    out, done = {}, set()
    for e in es:
        stack = [e]
        while stack:
            x = stack.pop()
            if x.get_id() in done:
                continue
            done.add(x.get_id())
            if z3.is_app(x):
                if x.decl().kind() == z3.Z3_OP_DIV and x.sort() == z3.RealSort():
                    out[x.get_id()] = x
                stack.extend(x.children())
    return list(out.values())


def numerals(es):
    nums, done = {}, set()
    for e in es:
        stack = [e]
        while stack:
            x = stack.pop()
            if x.get_id() in done:
                continue
            done.add(x.get_id())
            if z3.is_rational_value(x):
                fr = x.as_fraction()
                if fr.denominator == 1 and abs(fr) <= 2**53:
                    nums[x.get_id()] = x
            elif z3.is_int_value(x) and abs(x.as_long()) <= 2**53:
                nums[x.get_id()] = z3.RealVal(x.as_long())
            if z3.is_app(x):
                stack.extend(x.children())
    return list(nums.values())


def ground_axioms(es, rel_error=True):
    ts = fl_terms(es)
    ax = [fl(z3.RealVal(0)) == 0, fl(z3.RealVal(1)) == 1]
    pool = list(ts) + [fl(z3.RealVal(0)), fl(z3.RealVal(1))]
    for n in numerals(es):
        ax.append(fl(n) == n)
        pool.append(fl(n))
    for t in ts:
        a = t.arg(0)
        if rel_error:
            ax.append(z3.And(t - a <= U * _absr(a), a - t <= U * _absr(a)))
        ax.append(z3.Implies(a >= 0, t >= 0))
        ax.append(z3.Implies(a <= 0, t <= 0))
    # division lemmas (true in the reals), instantiated for quotients with the same denominator term:
    # they spare the solver the nonlinear reasoning that makes these queries unstable
    divs = div_terms(es)
    for q in divs:
        a, d = q.arg(0), q.arg(1)
        ax.append(z3.Implies(z3.And(d > 0, a >= 0), q >= 0))
        ax.append(z3.Implies(z3.And(d > 0, a <= 0), q <= 0))
        ax.append(z3.Implies(z3.And(d > 0, a <= d), q <= 1))
        ax.append(z3.Implies(z3.And(d > 0, a >= d), q >= 1))
    for q1 in divs:
        for q2 in divs:
            if q1.get_id() != q2.get_id() and q1.arg(1).get_id() == q2.arg(1).get_id():
                ax.append(z3.Implies(z3.And(q1.arg(1) > 0, q1.arg(0) <= q2.arg(0)), q1 <= q2))
    ids = set()
    for t1 in pool:
        for t2 in pool:
            if t1.get_id() != t2.get_id() and (t1.get_id(), t2.get_id()) not in ids:
                ids.add((t1.get_id(), t2.get_id()))
                ax.append(z3.Implies(t1.arg(0) <= t2.arg(0), t1 <= t2))
    return ax
