"""Trusted library contracts for the pyvc executor (builtins, stdlib, numpy subset).

Every handler is an *assumption* about a library function, named in the evidence (`ex.lib_used`).
Calls that have no handler make the function UNDECIDED (never silently havocked).
"""
from __future__ import annotations

import ast

import z3

from .ops import *  # noqa: F401,F403
from .state import Unsupported, PyExc, PathEnd
from .values import *  # noqa: F401,F403

BUILTINS = {"len", "isinstance", "issubclass", "range", "enumerate", "zip", "min", "max", "abs", "sum", "any", "all",
            "sorted", "reversed", "iter", "next", "hasattr", "getattr", "setattr", "print", "repr", "id", "type",
            "round", "map", "filter", "callable", "divmod", "pow", "hash", "vars", "dir", "super", "open", "format",
            "Ellipsis", "NotImplemented", "property", "staticmethod", "classmethod"}

ALIASES = {"np": "numpy", "pd": "pandas", "xr": "xarray", "typing_extensions": "typing"}

HANDLERS = {}


def libfn(*names):
    def deco(f):
        for n in names:
            HANDLERS[n] = f
        return f
    return deco


def canon(dotted: str) -> str:
    head, _, rest = dotted.partition(".")
    head = ALIASES.get(head, head)
    return head + ("." + rest if rest else "")


# dropped calls: effect-free on program and ghost state (stated in the evidence as "dropped")
DROPPED_PREFIXES = ("logging.", "warnings.warn", "warnings.filterwarnings", "warnings.simplefilter", "tqdm.", "builtins.print")


def call(ex, f: VLib, args, kwargs, fr):
    name = f.name
    if name in ("warnings.catch_warnings", "numpy.errstate"):
        ex.dropped.add(name)
        return VOpaque("warnings_cm", None, {})
    if name.startswith("repo:"):
        raise Unsupported(f"call of module {name}")
    for prefix, ph in ex.cfg.lib_prefix.items():
        if name.startswith(prefix):
            ex.lib_used.add(prefix + "* (boundary)")
            return ph(ex, f, args, kwargs, fr)
    h = HANDLERS.get(name)
    if h is not None:
        ex.lib_used.add(name)
        if f.self_val is not None:
            return h(ex, f.self_val, args, kwargs, fr)
        return h(ex, args, kwargs, fr)
    if name == "warnings.warn" and getattr(ex.cfg, "warn_raises", False):
        # under a warning filter set to "error" (python -W error, pytest filterwarnings=error) the call RAISES its category
        if ex.st.choose([True, True]) == 1:
            cat = kwargs.get("category", args[1] if len(args) > 1 else None)
            cname = cat.name.split(".")[-1] if isinstance(cat, VLib) else "UserWarning"
            ex.throw(cname if cname in ex_parents() else "UserWarning", "warning escalated to an error")
        return NONE
    if name.startswith(DROPPED_PREFIXES):
        ex.dropped.add(name)
        if name == "logging.getLogger":
            return VOpaque("logger")
        return NONE
    short = name.split(".")[-1]
    if name.startswith("builtins.") and short in ex_parents():
        return ex.st.alloc(HObj(short, {"args": VTuple(list(args)), "__notes__": None}))
    from . import arrays
    r = arrays.call(ex, f, args, kwargs, fr)
    if r is not NotImplemented:
        ex.lib_used.add(name)
        return r
    raise Unsupported(f"library call {name} has no contract")


def ex_parents():
    from .engine import BUILTIN_EXC_PARENT
    return BUILTIN_EXC_PARENT


# ---------------------------------------------------------------------------------------------
# attribute access on library values
# ---------------------------------------------------------------------------------------------
ASTROPY_CONST = {"astropy.constants.k_B.value": 1.380649e-23, "astropy.constants.m_e.value": 9.1093837139e-31, "astropy.constants.e.value": 1.602176634e-19,
                 "astropy.constants.h.value": 6.62607015e-34, "astropy.constants.c.value": 299792458.0}


def lib_attr(ex, obj: VLib, name: str):
    full = f"{obj.name}.{name}"
    if full in ("sys.version_info",):
        return VTuple([VInt(3), VInt(12), VInt(1), VStr("final"), VInt(0)])
    if full in ("numpy.nan", "math.nan"):
        return VFloat(float("nan"))
    if full in ("numpy.inf", "math.inf"):
        return VFloat(float("inf"))
    if full == "numpy.pi" or full == "math.pi":
        import math
        return VFloat(math.pi)
    if full in ASTROPY_CONST:          # CODATA values as astropy.constants gives them (SI)
        return VFloat(ASTROPY_CONST[full])
    if full == "numpy.newaxis":
        return NONE
    if full == "typing.TYPE_CHECKING":
        return VBool(False)
    if obj.name == "numpy" and name in DTYPES + ["float_", "int_"]:
        return VLib(full)
    return VLib(full)


def val_attr(ex, obj, name, fr):
    if isinstance(obj, VStr):
        return VLib("str." + name, obj)
    if isinstance(obj, VTuple):
        if name in ("index", "count"):
            return VLib("tuple." + name, obj)
    if isinstance(obj, VOpaque):
        if obj.kind == "logger":
            return VLib("logging.Logger." + name)
        return opaque_attr(ex, obj, name, fr)
    if isinstance(obj, VDtype):
        from . import arrays
        return arrays.dtype_attr(ex, obj, name)
    if isinstance(obj, VSlice):
        return {"start": obj.lo, "stop": obj.hi, "step": obj.step}[name]
    if isinstance(obj, (VInt, VFloat)) and name in ("real",):
        return obj
    if isinstance(obj, VFloat) and name == "is_integer":
        return VLib("float.is_integer", obj)
    if isinstance(obj, VSeq):
        if name in ("index", "count", "copy"):
            return VLib("seq." + name, obj)
    if isinstance(obj, VNone):
        ex.throw("AttributeError", f"'NoneType' object has no attribute {name!r}")
    if isinstance(obj, (VInt, VFloat, VBool)):
        if name in ("shape", "dtype", "ndim", "astype", "copy"):
            ex.throw("AttributeError", f"scalar has no attribute {name!r}")
    raise Unsupported(f"attribute {name!r} of {obj!r}")


def cell_attr(ex, obj: VRef, cell, name, fr):
    if isinstance(cell, HList):
        return VLib("list." + name, obj)
    if isinstance(cell, HDict):
        return VLib("dict." + name, obj)
    if isinstance(cell, HArr):
        from . import arrays
        return arrays.arr_attr(ex, obj, cell, name)
    raise Unsupported(f"attribute {name} of heap cell")


def lib_base_attr(ex, obj, ci, name):
    bases = " ".join(ex.world.lib_bases(ci))
    if "Mapping" in bases and name in ("keys", "items", "values", "get", "update", "pop", "setdefault"):
        return VLib("Mapping." + name, obj)
    return None


def sym_attr(ex, obj: VSym, name, fr):
    h = ex.cfg.lib_overrides.get(("sym_attr", ex.cls_name(obj.cls)))
    if h is not None:
        return h(ex, obj, name, fr)
    raise Unsupported(f"attribute {name!r} of symbolic {ex.cls_name(obj.cls)} (no declared type)")


def sym_setattr(ex, obj: VSym, name, val, fr):
    h = ex.cfg.lib_overrides.get(("sym_setattr", ex.cls_name(obj.cls)))
    if h is not None:
        return h(ex, obj, name, val, fr)
    raise Unsupported(f"store to {name!r} of symbolic {ex.cls_name(obj.cls)} (no declared type)")


def call_partial(ex, p, args, kwargs, fr):
    return ex.call(p.info["f"], list(p.info["args"]) + list(args), {**p.info["kwargs"], **kwargs}, fr)


def opaque_attr(ex, obj: VOpaque, name, fr):
    if obj.kind == "objdict":
        if name in ("update", "items", "keys", "copy"):
            return VLib("objdict." + name, obj)
        raise Unsupported(f"__dict__.{name}")
    h = ex.cfg.lib_overrides.get(("opaque_attr", obj.kind))
    if h is not None:
        return h(ex, obj, name, fr)
    if obj.kind == "bitgen" and name == "state":
        from . import arrays
        return arrays.bitgen_get_state(ex)
    if obj.kind == "iinfo" and name in obj.info:
        return obj.info[name]
    if obj.kind == "ndflags" and name in ("writeable", "owndata", "c_contiguous", "f_contiguous", "aligned"):
        # a flag of an array: an unknown boolean, the same one every time it is read for that array (arrays the caller hands in may be
        # read-only); a flag the code under test has SET keeps the value it was given
        setv = getattr(ex.st.cell(obj.info["of"]), "flag_values", {}).get(name)
        if setv is not None:
            return setv
        return VBool(z3.Bool(f"{name}!array{obj.info['of'].addr}"))
    raise Unsupported(f"attribute {name!r} of boundary object {obj.kind}")


def opaque_setattr(ex, obj, name, val, fr):
    if obj.kind == "ignore":
        return None
    if obj.kind == "ndflags":
        c = ex.st.cell(obj.info["of"])
        if not hasattr(c, "flag_values"):
            c.flag_values = {}
        c.flag_values[name] = val
        return None
    h = ex.cfg.lib_overrides.get(("opaque_setattr", obj.kind))
    if h is not None:
        return h(ex, obj, name, val, fr)
    if obj.kind == "bitgen" and name == "state":
        from . import arrays
        return arrays.bitgen_set_state(ex, val)
    raise Unsupported(f"store to {name!r} of boundary object {obj.kind}")


def opaque_contains(ex, container, item):
    h = ex.cfg.lib_overrides.get(("contains", getattr(container, "kind", None) or ex.cls_name(container.cls)))
    if h is not None:
        return h(ex, container, item)
    raise Unsupported(f"'in' on boundary object {container!r}")


def opaque_binop(ex, op, a, b):
    h = ex.cfg.lib_overrides.get(("binop", (a if isinstance(a, VOpaque) else b).kind))
    if h is not None:
        return h(ex, op, a, b)
    raise Unsupported(f"operator on boundary objects {a!r}, {b!r}")


def opaque_getitem(ex, obj, idx, fr):
    h = ex.cfg.lib_overrides.get(("getitem", getattr(obj, "kind", None) or ex.cls_name(obj.cls)))
    if h is not None:
        return h(ex, obj, idx, fr)
    raise Unsupported(f"subscript on boundary object {obj!r}")


def opaque_setitem(ex, obj, idx, val, fr):
    h = ex.cfg.lib_overrides.get(("setitem", getattr(obj, "kind", None) or ex.cls_name(obj.cls)))
    if h is not None:
        return h(ex, obj, idx, val, fr)
    raise Unsupported(f"item store on boundary object {obj!r}")


def call_opaque(ex, f, args, kwargs, fr):
    if isinstance(f, VOpaque) and f.kind == "partial":
        return call_partial(ex, f, args, kwargs, fr)
    if isinstance(f, VOpaque) and f.kind == "itemgetter":
        got = [ex.getitem(args[0], i, fr) for i in f.info["items"]]
        return got[0] if len(got) == 1 else VTuple(got)
    h = ex.cfg.lib_overrides.get(("call", getattr(f, "kind", None) or ex.cls_name(f.cls)))
    if h is not None:
        return h(ex, f, args, kwargs, fr)
    raise Unsupported(f"call of boundary object {f!r}")


def call_symbolic_kwargs(ex, f, args, kwargs, mapping, fr):
    h = ex.cfg.lib_overrides.get(("call_symkw",))
    if h is not None:
        return h(ex, f, args, kwargs, mapping, fr)
    raise Unsupported("call with ** of a mapping whose keys are symbolic")


def super_lib_call(ex, self_val, cls, name, args, kwargs, fr):
    raise Unsupported(f"super().{name} into a library base class")


def with_lib(ex, cm, item, body, fr):
    h = ex.cfg.lib_overrides.get(("with", getattr(cm, "kind", None) or getattr(cm, "name", None)))
    if h is not None:
        return h(ex, cm, item, body, fr)
    if isinstance(cm, VOpaque) and cm.kind == "warnings_cm":
        # warnings.catch_warnings() / np.errstate(): save and restore the warning filters / floating-point error mode; neither
        # is observable by the contracts (warnings are dropped), the body runs as it stands and exceptions propagate
        if item.optional_vars is not None:
            ex.assign(item.optional_vars, NONE, fr)
        return ex.exec_block(body, fr)
    raise Unsupported(f"with-statement on {cm!r}")


def seq_slice(ex, seq: VSeq, sl: VSlice):
    if not isinstance(sl.step, VNone):
        raise Unsupported("stepped slice of symbolic sequence")
    n = seq.n
    lo = z3.IntVal(0) if isinstance(sl.lo, VNone) else z_int(int_of(sl.lo))
    hi = n if isinstance(sl.hi, VNone) else z_int(int_of(sl.hi))
    norm = lambda i: z3.If(i < 0, z3.If(i + n < 0, 0, i + n), z3.If(i > n, n, i))
    lo, hi = norm(lo), norm(hi)
    ln = z3.If(hi > lo, hi - lo, 0)
    term = z3.SubSeq(seq.term, lo, ln) if seq.term is not None else None
    return VSeq(ln, lambda i: seq.get(lo + i), term, seq.kind)


def make_key(parts, sep="."):
    """Structured string: the concatenation of components that contain no separator."""
    out = []
    for i, p in enumerate(parts):
        if i:
            out.append(sep)
        out.append(p.v)
    v = VStr(concat_str(out))
    v.parts, v.sep = list(parts), sep
    return v


def str_getitem(ex, s: VStr, idx):
    if isinstance(idx, VSlice) and isinstance(idx.lo, VNone) and isinstance(idx.step, VNone) and getattr(idx.hi, "cut", None) is not None and idx.hi.cut[0] is s:
        return make_key(s.parts[:idx.hi.cut[1]], getattr(s, "sep", "."))
    if isinstance(idx, VSlice):
        lo = None if isinstance(idx.lo, VNone) else int_of(idx.lo)
        hi = None if isinstance(idx.hi, VNone) else int_of(idx.hi)
        if not isinstance(idx.step, VNone):
            raise Unsupported("stepped string slice")
        if is_conc(s.v) and (lo is None or is_conc(lo)) and (hi is None or is_conc(hi)):
            return VStr(s.v[lo:hi])
        zs = z_str(s.v)
        n = z3.Length(zs)
        norm = lambda i: z3.If(i < 0, z3.If(i + n < 0, 0, i + n), z3.If(i > n, n, i))
        l = z3.IntVal(0) if lo is None else norm(z_int(lo))
        h = n if hi is None else norm(z_int(hi))
        return VStr(z3.SubString(zs, l, z3.If(h > l, h - l, 0)))
    i = int_of(idx)
    if is_conc(s.v) and is_conc(i):
        if not -len(s.v) <= i < len(s.v):
            ex.throw("IndexError", "string index out of range")
        return VStr(s.v[i])
    zs = z_str(s.v)
    n = z3.Length(zs)
    i = z_int(i)
    if not ex.st.branch(z3.And(i >= -n, i < n)):
        ex.throw("IndexError", "string index out of range")
    return VStr(z3.SubString(zs, z3.If(i >= 0, i, i + n), 1))


# ---------------------------------------------------------------------------------------------
# isinstance
# ---------------------------------------------------------------------------------------------
def type_names(ex, t, out):
    if isinstance(t, VTuple):
        for x in t.items:
            type_names(ex, x, out)
    elif isinstance(t, VLib):
        out.append(t.name)
    elif isinstance(t, VClass):
        out.append(t.ci)
    elif isinstance(t, VNone):
        out.append("builtins.NoneType")
    else:
        raise Unsupported(f"isinstance class argument {t!r}")


NUMBER_KINDS = {"numbers.Number", "numbers.Real", "numbers.Integral"}


def isinstance_(ex, v, t) -> VBool:
    v = ex.resolve(v)
    names = []
    type_names(ex, t, names)
    libs = {n for n in names if isinstance(n, str)}
    clss = [n for n in names if not isinstance(n, str)]

    def has(*xs):
        return any(x in libs for x in xs)
    if isinstance(v, VBool):
        return VBool(has("builtins.bool", "builtins.int", "builtins.object", "numbers.Number", "numbers.Integral", "numbers.Real"))
    if isinstance(v, VInt):
        return VBool(has("builtins.int", "builtins.object", "numbers.Number", "numbers.Integral", "numbers.Real"))
    if isinstance(v, VFloat):
        return VBool(has("builtins.float", "builtins.object", "numbers.Number", "numbers.Real"))
    if isinstance(v, VStr):
        return VBool(has("builtins.str", "builtins.object", "collections.abc.Sequence", "typing.Sequence", "collections.abc.Iterable"))
    if isinstance(v, VNone):
        return VBool(has("builtins.NoneType", "builtins.object"))
    if isinstance(v, VTuple):
        return VBool(has("builtins.tuple", "builtins.object", "collections.abc.Sequence", "typing.Sequence", "collections.abc.Iterable"))
    if isinstance(v, VRange):
        return VBool(has("builtins.range", "collections.abc.Sequence", "typing.Sequence", "collections.abc.Iterable"))
    if isinstance(v, VSeq):
        base = "builtins.list" if v.kind == "list" else "builtins.tuple"
        return VBool(has(base, "builtins.object", "collections.abc.Sequence", "typing.Sequence", "collections.abc.Iterable"))
    if isinstance(v, VRef):
        cell = ex.st.cell(v)
        if isinstance(cell, HList):
            return VBool(has("builtins.list", "builtins.object", "collections.abc.Sequence", "typing.Sequence", "collections.abc.Iterable", "collections.abc.MutableSequence"))
        if isinstance(cell, HDict):
            return VBool(has("builtins.dict", "builtins.object", "collections.abc.Mapping", "typing.Mapping", "collections.abc.MutableMapping", "collections.abc.Iterable"))
        if isinstance(cell, HArr):
            return VBool(has("numpy.ndarray", "builtins.object"))
        if isinstance(cell, HObj):
            if isinstance(cell.cls, str):
                from .engine import exc_is_subclass
                return VBool(any(exc_is_subclass(cell.cls, n.split(".")[-1]) for n in libs))
            mro = ex.world.mro(cell.cls)
            if any(c in mro for c in clss):
                return VBool(True)
            lb = [canon(b) for b in ex.world.lib_bases(cell.cls)]
            return VBool(any(n.split(".")[-1] in [b.split(".")[-1] for b in lb] for n in libs) or has("builtins.object"))
    if isinstance(v, VSym):
        if isinstance(v.cls, str):
            if v.cls.startswith("lib:"):
                return VBool(v.cls[4:] in libs)
            return VBool(any(getattr(c, "name", None) == v.cls for c in clss))
        mro = ex.world.mro(v.cls)
        return VBool(any(c in mro for c in clss))
    if isinstance(v, VOpaque):
        h = ex.cfg.lib_overrides.get(("isinstance", v.kind))
        if h is not None:
            return h(ex, v, libs, clss)
        tn = v.info.get("type")
        if tn is not None:
            return VBool(tn in libs or any(t in libs for t in v.info.get("bases", ())))
        raise Unsupported(f"isinstance on boundary object {v.kind}")
    if isinstance(v, VDtype):
        return VBool(has("numpy.dtype"))
    if isinstance(v, (VFunc, VLib, VClass)):
        return VBool(has("builtins.object", "collections.abc.Callable", "typing.Callable"))
    raise Unsupported(f"isinstance({v!r}, ...)")


@libfn("builtins.isinstance")
def _isinstance(ex, args, kwargs, fr):
    return isinstance_(ex, args[0], args[1])


@libfn("inspect.isclass")
def _isclass(ex, args, kwargs, fr):
    return VBool(isinstance(args[0], VClass))


@libfn("builtins.callable")
def _callable(ex, args, kwargs, fr):
    return VBool(isinstance(args[0], (VFunc, VClass, VLib)))


@libfn("builtins.type")
def _type(ex, args, kwargs, fr):
    v = args[0]
    c = ex.obj_class(v)
    if c is not None:
        return VClass(c)
    m = {VInt: "int", VFloat: "float", VStr: "str", VBool: "bool", VTuple: "tuple", VNone: "NoneType"}
    for k, n in m.items():
        if isinstance(v, k):
            return VLib("builtins." + n)
    if isinstance(v, VRef):
        cell = ex.st.cell(v)
        if isinstance(cell, HList):
            return VLib("builtins.list")
        if isinstance(cell, HDict):
            return VLib("builtins.dict")
        if isinstance(cell, HArr):
            return VLib("numpy.ndarray")
        if isinstance(cell, HObj):
            return VLib("builtins." + cell.cls)
    raise Unsupported(f"type({v!r})")


# ---------------------------------------------------------------------------------------------
# builtins
# ---------------------------------------------------------------------------------------------
def length(ex, v, fr):
    items = ex.try_list(v)
    if items is not None:
        return VInt(len(items))
    if isinstance(v, VStr):
        return VInt(len(v.v) if is_conc(v.v) else z3.Length(v.v))
    if isinstance(v, VSeq):
        return VInt(v.n)
    if isinstance(v, VRange):
        lo, hi = int_of(v.lo), int_of(v.hi)
        if is_conc(lo) and is_conc(hi) and v.step is None:
            return VInt(len(range(lo, hi)))
        d = z_int(hi) - z_int(lo)
        return VInt(z3.If(d > 0, d, 0))
    if isinstance(v, VRef):
        cell = ex.st.cell(v)
        if isinstance(cell, HDict):
            return VInt(len(cell.items))
        if isinstance(cell, HArr):
            if not cell.shape:
                ex.throw("TypeError", "len() of unsized object")
            return VInt(cell.shape[0])
        if isinstance(cell, HObj) and not isinstance(cell.cls, str):
            m = ex.find_method(cell.cls, "__len__")
            if m is not None:
                return ex.call(VFunc(m, v), [], {}, fr)
    if isinstance(v, (VInt, VFloat, VNone, VBool)):
        ex.throw("TypeError", "object has no len()")
    if isinstance(v, (VOpaque, VSym)):
        h = ex.cfg.lib_overrides.get(("len", getattr(v, "kind", None) or ex.cls_name(v.cls)))
        if h is not None:
            return h(ex, v, fr)
    raise Unsupported(f"len({v!r})")


_HASH_FUNCS = {}


def py_hash(ex, v):
    """CPython's hash, as far as it is specified: hash(int) == int except hash(-1) == -2 (small ints); a tuple's hash is a
    function of its elements' HASHES only; bool hashes as 0 / 1; str / float / None hashes are uninterpreted (no
    injectivity is assumed anywhere)."""
    if isinstance(v, VBool):
        return z3.If(z_bool(v.v), z3.IntVal(1), z3.IntVal(0))
    if isinstance(v, VInt):
        t = z_int(v.v)
        return z3.If(t == -1, z3.IntVal(-2), t)
    if isinstance(v, VStr):
        f = _HASH_FUNCS.setdefault("str", z3.Function("py_hash_str", z3.StringSort(), z3.IntSort()))
        return f(z_str(v.v))
    if isinstance(v, VFloat) and not is_fp(v.v):
        f = _HASH_FUNCS.setdefault("float", z3.Function("py_hash_float", z3.RealSort(), z3.IntSort()))
        return f(to_real(v))
    if isinstance(v, VNone):
        return z3.Int("py_hash_None")
    if isinstance(v, VMaybe):
        return z3.If(v.present, py_hash(ex, v.val), z3.Int("py_hash_None"))
    if isinstance(v, VTuple):
        hs = [py_hash(ex, x) for x in v.items]
        f = _HASH_FUNCS.setdefault(("tuple", len(hs)), z3.Function(f"py_hash_tuple{len(hs)}", *([z3.IntSort()] * len(hs)), z3.IntSort()))
        return f(*hs) if hs else z3.Int("py_hash_empty_tuple")
    raise Unsupported(f"hash of {v!r}")


@libfn("operator.itemgetter")
def _itemgetter(ex, args, kwargs, fr):
    return VOpaque("itemgetter", None, {"items": list(args)})


@libfn("itertools.groupby")
def _groupby(ex, args, kwargs, fr):
    """itertools.groupby(iterable, key): CONSECUTIVE items with equal keys form one group, in order (library contract); keys are
    compared as the program's == would (symbolic keys branch)."""
    items = ex.iterate(args[0], fr)
    keyf = kwargs.get("key", args[1] if len(args) > 1 else None)
    out = []
    for x in items:
        k = x if keyf is None or isinstance(keyf, VNone) else ex.call(keyf, [x], {}, fr)
        if out:
            c = ex.eq(out[-1][0], k, fr)
            if (c is True) or (not isinstance(c, bool) and ex.st.branch(c)):
                out[-1][1].append(x)
                continue
        out.append((k, [x]))
    return ex.st.alloc(HList([VTuple([k, ex.st.alloc(HList(g))]) for k, g in out]))


@libfn("builtins.issubclass")
def _issubclass(ex, args, kwargs, fr):
    a, b = args
    if isinstance(a, VDtype):        # numpy scalar types are modelled by their dtype
        from . import arrays
        return arrays.NP["numpy.issubdtype"](ex, [a, b], {}, fr)
    if isinstance(a, VClass) and isinstance(b, VClass):
        return VBool(b.ci in ex.world.mro(a.ci))
    raise Unsupported(f"issubclass({a!r}, {b!r})")


@libfn("collections.defaultdict")
def _defaultdict(ex, args, kwargs, fr):
    r = ex.st.alloc(HDict([]))
    ex.st.cell(r).default_factory = args[0] if args else None
    return r


@libfn("collections.Counter")
def _counter(ex, args, kwargs, fr):
    """Counter(iterable) for concrete hashable items: a dict of counts in first-occurrence order (library contract)."""
    items = ex.iterate(args[0], fr) if args else []
    out = []
    for x in items:
        if not (hasattr(x, "v") and is_conc(x.v)):
            raise Unsupported("Counter over symbolic items")
        for i, (k, c) in enumerate(out):
            if type(k) is type(x) and k.v == x.v:
                out[i] = (k, VInt(c.v + 1))
                break
        else:
            out.append((x, VInt(1)))
    return ex.st.alloc(HDict(out))


@libfn("builtins.hash")
def _hash(ex, args, kwargs, fr):
    return VInt(py_hash(ex, args[0]))


@libfn("builtins.len")
def _len(ex, args, kwargs, fr):
    return length(ex, args[0], fr)


@libfn("builtins.range")
def _range(ex, args, kwargs, fr):
    if len(args) == 1:
        return VRange(VInt(0), args[0])
    if len(args) == 2:
        return VRange(args[0], args[1])
    return VRange(args[0], args[1], args[2])


@libfn("builtins.slice")
def _slice(ex, args, kwargs, fr):
    if len(args) == 1:
        return VSlice(NONE, args[0], NONE)
    if len(args) == 2:
        return VSlice(args[0], args[1], NONE)
    return VSlice(args[0], args[1], args[2])


@libfn("builtins.enumerate")
def _enumerate(ex, args, kwargs, fr):
    start = int_of(kwargs.get("start", args[1] if len(args) > 1 else VInt(0)))
    v = as_seq(ex, args[0], fr)
    if isinstance(v, VSeq):
        return VSeq(v.n, lambda i: VTuple([VInt(z_int(start) + i), v.get(i)]), None, "list")
    v = args[0]
    return ex.st.alloc(HList([VTuple([VInt(start + i if is_conc(start) else start + i), x]) for i, x in enumerate(ex.iterate(v, fr))]))


def as_seq(ex, v, fr):
    """View a value as VSeq if it has symbolic length, else concrete list."""
    if isinstance(v, VSeq):
        return v
    if ex.is_arr(v):
        c = ex.st.cell(v)
        if len(c.shape) == 1 and not is_conc(c.shape[0]):
            return VSeq(z_int(c.shape[0]), lambda i, c=c: c.elem((i,)), None, "list")
        if len(c.shape) > 1 and not is_conc(c.shape[0]):
            from . import arrays
            return VSeq(z_int(c.shape[0]), lambda i, v=v: arrays.arr_getitem(ex, v, VInt(i)), None, "list")
    if isinstance(v, VRange) and not (is_conc(int_of(v.lo)) and is_conc(int_of(v.hi))):
        lo, hi = z_int(int_of(v.lo)), z_int(int_of(v.hi))
        return VSeq(z3.If(hi > lo, hi - lo, 0), lambda i: VInt(lo + i), None, "list")
    return ex.iterate(v, fr)


@libfn("itertools.count")
def _count(ex, args, kwargs, fr):
    return VOpaque("count", None, {"start": args[0] if args else VInt(0)})


@libfn("toolz.unique", "toolz.itertoolz.unique")
def _unique(ex, args, kwargs, fr):
    out = []
    for x in ex.iterate(args[0], fr):
        if not any(ex.same_key(x, y) for y in out):
            out.append(x)
    return ex.st.alloc(HList(out))


@libfn("builtins.zip")
def _zip(ex, args, kwargs, fr):
    strict = kwargs.get("strict")
    counts = [a for a in args if isinstance(a, VOpaque) and a.kind == "count"]
    if counts:
        others = [as_seq(ex, a, fr) for a in args if not (isinstance(a, VOpaque) and a.kind == "count")]
        if any(isinstance(o, VSeq) for o in others) or not others:
            raise Unsupported("zip(count(), <symbolic sequence>)")
        n = min(len(o) for o in others)
        rows = []
        for i in range(n):
            row, it = [], iter(others)
            for a in args:
                if isinstance(a, VOpaque) and a.kind == "count":
                    row.append(ex.binop(ast.Add(), a.info["start"], VInt(i), fr))
                else:
                    row.append(next(it)[i])
            rows.append(VTuple(row))
        return ex.st.alloc(HList(rows))
    seqs = [as_seq(ex, a, fr) for a in args]
    if any(isinstance(s, VSeq) for s in seqs):
        ns = [s.n if isinstance(s, VSeq) else z3.IntVal(len(s)) for s in seqs]
        n = ns[0]
        for m in ns[1:]:
            n = z3.If(m < n, m, n)
        if strict is not None and ex.st.branch(ex.truth(strict, fr)):
            for m in ns[1:]:
                if not ex.st.branch(m == ns[0]):
                    ex.throw("ValueError", "zip() arguments have different lengths")

        def get(i, seqs=seqs):
            out = []
            for s in seqs:
                if isinstance(s, VSeq):
                    out.append(s.get(i))
                else:
                    k = ex.st.choose([i == j for j in range(len(s))])
                    out.append(s[k])
            return VTuple(out)
        return VSeq(n, get, None, "list")
    if strict is not None and ex.st.branch(ex.truth(strict, fr)) and len({len(s) for s in seqs}) > 1:
        ex.throw("ValueError", "zip() arguments have different lengths")
    return ex.st.alloc(HList([VTuple(list(t)) for t in zip(*seqs)]))


def minmax(ex, args, kwargs, fr, is_min):
    if len(args) == 1:
        if ex.is_arr(args[0]):
            from . import arrays
            return arrays.reduce_minmax(ex, args[0], is_min)
        vals = ex.iterate(args[0], fr)
    else:
        vals = list(args)
    if "key" in kwargs:
        raise Unsupported("min/max with key")
    if not vals:
        if "default" in kwargs:
            return kwargs["default"]
        ex.throw("ValueError", "min()/max() arg is an empty sequence")
    best = vals[0]
    for v in vals[1:]:
        if not (is_num(v) and is_num(best)):
            raise Unsupported("min/max of non-numbers")
        c = num_compare("lt" if is_min else "gt", v, best)
        if ex.st.branch(c):
            best = v
    return best


@libfn("builtins.min")
def _min(ex, args, kwargs, fr):
    return minmax(ex, args, kwargs, fr, True)


@libfn("builtins.max")
def _max(ex, args, kwargs, fr):
    return minmax(ex, args, kwargs, fr, False)


@libfn("builtins.abs")
def _abs(ex, args, kwargs, fr):
    v = args[0]
    if ex.is_arr(v):
        from . import arrays
        return arrays.ufunc1(ex, "abs", v)
    if is_conc(v.v):
        return type(v)(abs(v.v))
    if isinstance(v, VFloat) and is_fp(v.v):
        return VFloat(z3.fpAbs(v.v))
    t = v.v if isinstance(v, VFloat) else as_int_term(v)
    return type(v)(z3.If(t >= 0, t, -t)) if not isinstance(v, VBool) else VInt(as_int_term(v))


@libfn("builtins.sum")
def _sum(ex, args, kwargs, fr):
    if ex.is_arr(args[0]):
        from . import arrays
        return arrays.reduce_sum(ex, args[0])
    vals = ex.iterate(args[0], fr)
    acc = args[1] if len(args) > 1 else kwargs.get("start", VInt(0))
    for v in vals:
        acc = ex.binop(ast.Add(), acc, v, fr)
    return acc


@libfn("builtins.any")
def _any(ex, args, kwargs, fr):
    return VBool(z_or(*[ex.truth(v, fr) for v in ex.iterate(args[0], fr)]))


@libfn("builtins.all")
def _all(ex, args, kwargs, fr):
    return VBool(z_and(*[ex.truth(v, fr) for v in ex.iterate(args[0], fr)]))


@libfn("builtins.iter")
def _iter(ex, args, kwargs, fr):
    v = args[0]
    if isinstance(v, VSeq):
        return v
    d = ex.try_dict(v)
    if d is not None:
        return ex.st.alloc(HList([k for k, _ in d]))
    return ex.st.alloc(HList(ex.iterate(v, fr)))


@libfn("builtins.sorted")
def _sorted(ex, args, kwargs, fr):
    vals = ex.iterate(args[0], fr)
    if all(isinstance(v, (VInt, VFloat, VStr)) and is_conc(v.v) for v in vals) and "key" not in kwargs:
        rev = "reverse" in kwargs and ex.truth(kwargs["reverse"]) is True
        return ex.st.alloc(HList(sorted(vals, key=lambda v: v.v, reverse=rev)))
    if "key" not in kwargs and "reverse" not in kwargs and len(vals) <= 4:
        # short list of symbolic numbers / tuples of numbers: stable insertion sort, one path per outcome of each comparison
        from .ops import to_real

        def lt(a, b):
            if isinstance(a, VTuple) and isinstance(b, VTuple):
                for x, y in zip(a.items, b.items):
                    if lt(x, y):
                        return True
                    if lt(y, x):
                        return False
                return len(a.items) < len(b.items)
            if isinstance(a, (VInt, VFloat, VBool)) and isinstance(b, (VInt, VFloat, VBool)):
                return ex.st.branch(to_real(a) < to_real(b))
            raise Unsupported("sorted: comparison of these values")
        out = []
        for x in vals:
            pos = len(out)
            while pos > 0 and lt(x, out[pos - 1]):
                pos -= 1
            out.insert(pos, x)
        return ex.st.alloc(HList(out))
    raise Unsupported("sorted of symbolic values")


@libfn("builtins.reversed")
def _reversed(ex, args, kwargs, fr):
    return ex.st.alloc(HList(list(reversed(ex.iterate(args[0], fr)))))


@libfn("builtins.map")
def _map(ex, args, kwargs, fr):
    """map(f, it) as seen by its consumer (list(), tuple(), a for loop): elements in order; a StopIteration escaping from f
    ends the iteration silently (iterator protocol) — the elements produced so far are all the consumer gets."""
    f = args[0]
    out = []
    for x in ex.iterate(args[1], fr):
        try:
            out.append(ex.call(f, [x], {}, fr))
        except PyExc as pe:
            m = ex.exc_matches(pe.val, VLib("builtins.StopIteration"))
            if (m is True) or (not isinstance(m, bool) and ex.st.branch(m)):
                ex.st.ghost.setdefault("SWALLOWED", []).append(pe.val)
                break
            raise
    return ex.st.alloc(HList(out))


@libfn("functools.partial")
def _partial(ex, args, kwargs, fr):
    return VOpaque("partial", None, {"f": args[0], "args": list(args[1:]), "kwargs": dict(kwargs)})


@libfn("builtins.hasattr")
def _hasattr(ex, args, kwargs, fr):
    obj, name = args
    if not (isinstance(name, VStr) and is_conc(name.v)):
        h = ex.cfg.lib_overrides.get(("hasattr_sym",))
        if h is not None:
            return h(ex, obj, name, fr)
        raise Unsupported("hasattr with symbolic attribute name")
    try:
        ex.getattr(obj, name.v, fr)
        return VBool(True)
    except PyExc as pe:
        if ex.st.branch(ex.exc_matches(pe.val, VLib("builtins.AttributeError"))):
            return VBool(False)
        raise


@libfn("builtins.getattr")
def _getattr(ex, args, kwargs, fr):
    obj, name = args[0], args[1]
    if not (isinstance(name, VStr) and is_conc(name.v)):
        h = ex.cfg.lib_overrides.get(("getattr_sym",))
        if h is not None:
            return h(ex, obj, name, args[2:], fr)
        raise Unsupported("getattr with symbolic attribute name")
    if len(args) > 2:
        try:
            return ex.getattr(obj, name.v, fr)
        except PyExc as pe:
            if ex.st.branch(ex.exc_matches(pe.val, VLib("builtins.AttributeError"))):
                return args[2]
            raise
    return ex.getattr(obj, name.v, fr)


@libfn("builtins.setattr")
def _setattr(ex, args, kwargs, fr):
    obj, name, val = args
    if not (isinstance(name, VStr) and is_conc(name.v)):
        h = ex.cfg.lib_overrides.get(("setattr_sym",))
        if h is not None:
            return h(ex, obj, name, val, fr)
        raise Unsupported("setattr with symbolic attribute name")
    ex.setattr(obj, name.v, val, fr)
    return NONE


@libfn("builtins.int")
def _int(ex, args, kwargs, fr):
    if not args:
        return VInt(0)
    v = args[0]
    if isinstance(v, (VInt, VBool)):
        return VInt(as_int_term(v))
    if isinstance(v, VFloat):
        if is_conc(v.v):
            try:
                return VInt(int(v.v))
            except (ValueError, OverflowError):
                ex.throw("ValueError", "cannot convert float NaN/inf to integer")
        if is_fp(v.v):
            if ex.st.branch(z3.Or(z3.fpIsNaN(v.v), z3.fpIsInf(v.v))):
                ex.throw("ValueError", "cannot convert float NaN/inf to integer")
            return VInt(z3.ToInt(trunc_real(z3.fpToReal(v.v))))
        # int(t) = truncation toward zero, characterised linearly by a fresh integer q
        q = ex.st.fresh_int("trunc")
        t = v.v
        ex.st.assume(z3.If(t >= 0, z3.And(z3.ToReal(q) <= t, t < z3.ToReal(q) + 1), z3.And(z3.ToReal(q) >= t, t > z3.ToReal(q) - 1)))
        return VInt(q)
    if isinstance(v, VStr):
        if is_conc(v.v):
            try:
                return VInt(int(v.v))
            except ValueError:
                ex.throw("ValueError", "invalid literal for int()")
        # decimal digits only -> value; anything else: ValueError (signs/spaces/underscores are folded into
        # the "not a plain digit string" case with an uninterpreted result)
        s = v.v
        code = z3.StrToInt(s)
        if ex.st.branch(code >= 0):
            return VInt(code)
        ok = ex.st.fresh_bool("int_parses")
        if ex.st.branch(ok):
            return VInt(ex.st.fresh_int("int_of_str"))
        ex.throw("ValueError", "invalid literal for int()")
    if isinstance(v, VNone):
        ex.throw("TypeError", "int() argument must be a string or a number, not 'NoneType'")
    raise Unsupported(f"int({v!r})")


@libfn("builtins.float")
def _float(ex, args, kwargs, fr):
    if not args:
        return VFloat(0.0)
    v = args[0]
    if isinstance(v, VFloat):
        return v
    if isinstance(v, (VInt, VBool)):
        t = as_int_term(v)
        if is_conc(t):
            try:
                return VFloat(float(t))
            except OverflowError:
                ex.throw("OverflowError", "int too large to convert to float")
        # float(i) of a symbolic int keeps the exact integer value (a Real term): exact for |i| <= 2**53,
        # beyond that CPython rounds to nearest / raises OverflowError above ~1.8e308
        ex.st.assumptions.add("float(int) treated as exact (true for |i| <= 2**53)")
        return wrap_float(ex.cfg, z3.ToReal(t)) if ex.cfg.float_mode == "rnd" else VFloat(z3.ToReal(t))
    if isinstance(v, VStr):
        if is_conc(v.v):
            try:
                return VFloat(float(v.v))
            except ValueError:
                ex.throw("ValueError", "could not convert string to float")
        ok = z3.Bool(f"float_parses({v.v})") if False else ex.st.fresh_bool("float_parses")
        if ex.st.branch(ok):
            if ex.cfg.float_mode == "fp":
                return VFloat(parse_float_fp(v.v))
            return VFloat(parse_float(v.v))
        ex.throw("ValueError", "could not convert string to float")
    if isinstance(v, VNone):
        ex.throw("TypeError", "float() argument must be a string or a real number, not 'NoneType'")
    if isinstance(v, (VTuple,)) or (isinstance(v, VRef) and not ex.is_arr(v)):
        ex.throw("TypeError", "float() argument must be a string or a real number")
    if isinstance(v, VSym) and isinstance(v.cls, str) and v.cls.startswith("lib:numpy."):
        # numpy scalar: float(x) is its numeric value
        arr = ex.sym_field_array(v.cls, "value") if (v.cls, "value") in ex.cfg.field_types else None
        if arr is not None:
            return ex.sym_wrap(ex.cfg.field_types[(v.cls, "value")], z3.Select(arr, v.t))
    raise Unsupported(f"float({v!r})")


@libfn("builtins.bool")
def _bool(ex, args, kwargs, fr):
    return VBool(ex.truth(args[0], fr)) if args else VBool(False)


@libfn("builtins.str")
def _str(ex, args, kwargs, fr):
    if not args:
        return VStr("")
    return VStr(ex.format_value(args[0], -1, fr))


@libfn("builtins.repr")
def _repr(ex, args, kwargs, fr):
    return VStr(ex.format_value(args[0], ord("r"), fr))


@libfn("builtins.tuple")
def _tuple(ex, args, kwargs, fr):
    if not args:
        return VTuple([])
    if isinstance(args[0], VSeq):
        s = args[0]
        return VSeq(s.n, s.get, s.term, "tuple")
    return VTuple(ex.iterate(args[0], fr))


@libfn("builtins.list")
def _list(ex, args, kwargs, fr):
    if not args:
        return ex.st.alloc(HList([]))
    if isinstance(args[0], VSeq):
        s = args[0]
        return VSeq(s.n, s.get, s.term, "list")
    if isinstance(args[0], VOpaque):
        h = ex.cfg.lib_overrides.get(("list_of", args[0].kind))
        if h is not None:
            return h(ex, args[0], fr)
    return ex.st.alloc(HList(ex.iterate(args[0], fr)))


@libfn("builtins.set", "builtins.frozenset")
def _set(ex, args, kwargs, fr):
    if not args:
        return VTuple([])
    items = []
    for x in ex.iterate(args[0], fr):
        if not any(ex.same_key(x, y) for y in items):
            items.append(x)
    return VTuple(items)


@libfn("builtins.dict")
def _dict(ex, args, kwargs, fr):
    items = []
    if args:
        src = args[0]
        d = ex.try_dict(src)
        if d is not None:
            items = list(d)
        elif isinstance(src, VRef) and isinstance(ex.st.cell(src), HObj):
            items = ex.mapping_items(src, fr)
        elif isinstance(src, (VOpaque, VSym)):
            h = ex.cfg.lib_overrides.get(("dict_of", getattr(src, "kind", None) or ex.cls_name(src.cls)))
            if h is None:
                raise Unsupported(f"dict({src!r})")
            return h(ex, src, fr)
        else:
            for p in ex.iterate(src, fr):
                k, v = ex.iterate(p, fr)
                items = [(a, b) for a, b in items if not ex.same_key(a, k)] + [(k, v)]
    for k, v in kwargs.items():
        items = [(a, b) for a, b in items if not ex.same_key(a, VStr(k))] + [(VStr(k), v)]
    return ex.st.alloc(HDict(items))


@libfn("object.__new__")
def _object_new(ex, owner, args, kwargs, fr):
    c = args[0] if args else owner
    if not isinstance(c, VClass):
        raise Unsupported("__new__ of a non-repository class")
    return ex.st.alloc(HObj(c.ci, {}))


@libfn("builtins.id")
def _id(ex, args, kwargs, fr):
    v = args[0]
    if isinstance(v, VRef):
        return VInt(v.addr)
    if isinstance(v, VSym):
        return VInt(v.t)
    raise Unsupported("id()")


@libfn("builtins.round")
def _round(ex, args, kwargs, fr):
    v = args[0]
    if is_conc(v.v):
        return VInt(round(v.v)) if len(args) == 1 else VFloat(round(v.v, args[1].v))
    nd = args[1] if len(args) > 1 else kwargs.get("ndigits")
    if isinstance(v, (VFloat, VInt)) and (nd is None or isinstance(nd, VNone) or (isinstance(nd, VInt) and is_conc(nd.v))) and ex.cfg.float_mode != "fp":
        # round(x[, n]): the nearest multiple of 10**-n, ties to even (real mode: exact; CPython rounds the decimal representation correctly)
        from . import arrays as A
        r = A._round(ex, [v if isinstance(v, VFloat) else VFloat(to_real(v)), VInt(0 if nd is None or isinstance(nd, VNone) else int(nd.v))], {}, fr)
        if nd is None or isinstance(nd, VNone):
            return VInt(z3.ToInt(to_real(r)))
        return r if isinstance(v, VFloat) else v
    raise Unsupported("round of symbolic value")


@libfn("builtins.next")
def _next(ex, args, kwargs, fr):
    items = ex.iterate(args[0], fr)
    if items:
        return items[0]
    if len(args) > 1:
        return args[1]
    ex.throw("StopIteration", "")


# ---- exceptions -------------------------------------------------------------------------------
@libfn("exc.add_note")
def _add_note(ex, self_val, args, kwargs, fr):
    cell = ex.st.cell(self_val)
    cur = cell.fields.get("__notes__")
    notes = list(ex.st.cell(cur).items) if cur is not None else []
    cell.fields["__notes__"] = ex.st.alloc(HList(notes + [args[0]]))
    return NONE


# ---- list / dict / tuple / str methods ---------------------------------------------------------
@libfn("list.append")
def _append(ex, self_val, args, kwargs, fr):
    ex.st.cell(self_val).items.append(args[0])
    return NONE


@libfn("list.extend")
def _extend(ex, self_val, args, kwargs, fr):
    ex.st.cell(self_val).items.extend(ex.iterate(args[0], fr))
    return NONE


@libfn("list.insert")
def _insert(ex, self_val, args, kwargs, fr):
    i = int_of(args[0])
    if not is_conc(i):
        raise Unsupported("list.insert at symbolic index")
    ex.st.cell(self_val).items.insert(i, args[1])
    return NONE


@libfn("list.copy")
def _lcopy(ex, self_val, args, kwargs, fr):
    return ex.st.alloc(HList(ex.st.cell(self_val).items))


@libfn("list.pop")
def _lpop(ex, self_val, args, kwargs, fr):
    items = ex.st.cell(self_val).items
    if not items:
        ex.throw("IndexError", "pop from empty list")
    i = int_of(args[0]) if args else -1
    if not is_conc(i):
        raise Unsupported("list.pop at symbolic index")
    return items.pop(i)


@libfn("list.index", "tuple.index")
def _lindex(ex, self_val, args, kwargs, fr):
    for i, x in enumerate(ex.try_list(self_val)):
        if ex.same_key(x, args[0]):
            return VInt(i)
    ex.throw("ValueError", "x not in list")


@libfn("list.count", "tuple.count")
def _lcount(ex, self_val, args, kwargs, fr):
    n = 0
    for x in ex.try_list(self_val):
        if ex.same_key(x, args[0]):
            n += 1
    return VInt(n)


@libfn("dict.get", "Mapping.get")
def _dget(ex, self_val, args, kwargs, fr):
    default = args[1] if len(args) > 1 else kwargs.get("default", NONE)
    d = ex.try_dict(self_val)
    if d is None:
        try:
            return ex.getitem(self_val, args[0], fr)
        except PyExc as pe:
            if ex.st.branch(ex.exc_matches(pe.val, VLib("builtins.KeyError"))):
                return default
            raise
    for k, v in d:
        if ex.same_key(k, args[0]):
            return v
    return default


@libfn("dict.items")
def _ditems(ex, self_val, args, kwargs, fr):
    return ex.st.alloc(HList([VTuple([k, v]) for k, v in ex.st.cell(self_val).items]))


@libfn("Mapping.items")
def _mitems(ex, self_val, args, kwargs, fr):
    return ex.st.alloc(HList([VTuple([k, v]) for k, v in ex.mapping_items(self_val, fr)]))


@libfn("Mapping.keys")
def _mkeys(ex, self_val, args, kwargs, fr):
    return ex.st.alloc(HList(ex.iterate(self_val, fr)))


@libfn("Mapping.values")
def _mvalues(ex, self_val, args, kwargs, fr):
    return ex.st.alloc(HList([v for _, v in ex.mapping_items(self_val, fr)]))


@libfn("dict.keys")
def _dkeys(ex, self_val, args, kwargs, fr):
    return ex.st.alloc(HList([k for k, _ in ex.st.cell(self_val).items]))


@libfn("dict.values")
def _dvalues(ex, self_val, args, kwargs, fr):
    return ex.st.alloc(HList([v for _, v in ex.st.cell(self_val).items]))


@libfn("dict.copy")
def _dcopy(ex, self_val, args, kwargs, fr):
    return ex.st.alloc(HDict(ex.st.cell(self_val).items))


@libfn("dict.update")
def _dupdate(ex, self_val, args, kwargs, fr):
    src = ex.mapping_items(args[0], fr) if args else []
    src = list(src) + [(VStr(k), v) for k, v in kwargs.items()]
    for k, v in src:
        ex.setitem(self_val, k, v, fr)
    return NONE


@libfn("dict.pop")
def _dpop(ex, self_val, args, kwargs, fr):
    cell = ex.st.cell(self_val)
    for j, (k, v) in enumerate(cell.items):
        if ex.same_key(k, args[0]):
            del cell.items[j]
            return v
    if len(args) > 1:
        return args[1]
    raise PyExc(ex.make_exc("KeyError", args[0]))


@libfn("dict.setdefault")
def _dsetdefault(ex, self_val, args, kwargs, fr):
    cell = ex.st.cell(self_val)
    for k, v in cell.items:
        if ex.same_key(k, args[0]):
            return v
    cell.items.append((args[0], args[1] if len(args) > 1 else NONE))
    return cell.items[-1][1]


def _sconc(*vs):
    return all(isinstance(v, VStr) and is_conc(v.v) for v in vs)


@libfn("str.split")
def _split(ex, self_val, args, kwargs, fr):
    parts = getattr(self_val, "parts", None)
    if parts is not None and args and _sconc(args[0]) and args[0].v == getattr(self_val, "sep", "."):
        return ex.st.alloc(HList(list(parts)))
    if _sconc(self_val, *args):
        return ex.st.alloc(HList([VStr(p) for p in self_val.v.split(*[a.v for a in args])]))
    h = ex.cfg.lib_overrides.get(("str.split_sym",))
    if h is not None:
        return h(ex, self_val, args, fr)
    raise Unsupported("str.split on symbolic string")


@libfn("str.rsplit")
def _rsplit(ex, self_val, args, kwargs, fr):
    if _sconc(self_val, *args):
        return ex.st.alloc(HList([VStr(p) for p in self_val.v.rsplit(*[a.v for a in args])]))
    # s.rsplit(sep, 1) on a symbolic string, one-character literal separator: split at the LAST occurrence (if any)
    if len(args) == 2 and _sconc(args[0]) and len(args[0].v) == 1 and isinstance(args[1], VInt) and is_conc(args[1].v) and args[1].v == 1:
        zs = z_str(self_val.v)
        i = z3.LastIndexOf(zs, z3.StringVal(args[0].v))
        if ex.st.branch(i >= 0):
            return ex.st.alloc(HList([VStr(z3.SubString(zs, 0, i)), VStr(z3.SubString(zs, i + 1, z3.Length(zs) - i - 1))]))
        return ex.st.alloc(HList([self_val]))
    raise Unsupported("str.rsplit on symbolic string")


@libfn("str.partition", "str.rpartition")
def _partition(ex, self_val, args, kwargs, fr, _name=None):
    raise Unsupported("str.partition")


def _mk_partition(right):
    def h(ex, self_val, args, kwargs, fr):
        if _sconc(self_val, *args):
            r = (self_val.v.rpartition if right else self_val.v.partition)(args[0].v)
            return VTuple([VStr(x) for x in r])
        if len(args) == 1 and _sconc(args[0]) and len(args[0].v) == 1:
            zs, sep = z_str(self_val.v), z3.StringVal(args[0].v)
            i = z3.LastIndexOf(zs, sep) if right else z3.IndexOf(zs, sep, 0)
            if ex.st.branch(i >= 0):
                return VTuple([VStr(z3.SubString(zs, 0, i)), VStr(args[0].v), VStr(z3.SubString(zs, i + 1, z3.Length(zs) - i - 1))])
            return VTuple([VStr(""), VStr(""), self_val]) if right else VTuple([self_val, VStr(""), VStr("")])
        raise Unsupported("str.partition on symbolic string")
    return h


HANDLERS["str.partition"] = _mk_partition(False)
HANDLERS["str.rpartition"] = _mk_partition(True)


@libfn("str.join")
def _join(ex, self_val, args, kwargs, fr):
    parts = ex.iterate(args[0], fr)
    out = []
    for i, p in enumerate(parts):
        if i:
            out.append(self_val.v)
        if not isinstance(p, VStr):
            ex.throw("TypeError", "sequence item: expected str instance")
        out.append(p.v)
    return VStr(concat_str(out))


@libfn("str.startswith")
def _startswith(ex, self_val, args, kwargs, fr):
    if _sconc(self_val, args[0]):
        return VBool(self_val.v.startswith(args[0].v))
    if isinstance(args[0], VTuple):
        return VBool(z_or(*[_startswith(ex, self_val, [a], {}, fr).v for a in args[0].items]))
    return VBool(z3.PrefixOf(z_str(args[0].v), z_str(self_val.v)))


@libfn("str.endswith")
def _endswith(ex, self_val, args, kwargs, fr):
    if _sconc(self_val, args[0]):
        return VBool(self_val.v.endswith(args[0].v))
    if isinstance(args[0], VTuple):
        return VBool(z_or(*[_endswith(ex, self_val, [a], {}, fr).v for a in args[0].items]))
    return VBool(z3.SuffixOf(z_str(args[0].v), z_str(self_val.v)))


@libfn("str.find")
def _find(ex, self_val, args, kwargs, fr):
    parts = getattr(self_val, "parts", None)
    if parts is not None and _sconc(args[0]) and args[0].v.startswith(".") and "." not in args[0].v[1:]:
        # structured key c1.c2...cn (components contain no dot): position of ".<name>" is a component boundary
        name = args[0].v[1:]
        for k in range(1, len(parts)):
            c = ex.eq(parts[k], VStr(name))
            if ex.st.branch(c):
                r = VInt(z3.Length(z_str(make_key(parts[:k]).v)) if not all(is_conc(p.v) for p in parts[:k]) else len(".".join(p.v for p in parts[:k])))
                r.cut = (self_val, k)
                return r
        return VInt(-1)
    if _sconc(self_val, args[0]):
        return VInt(self_val.v.find(args[0].v))
    return VInt(z3.IndexOf(z_str(self_val.v), z_str(args[0].v), 0))


def _flat_concat(t):
    out = []

    def walk(x):
        if z3.is_app(x) and x.decl().kind() == z3.Z3_OP_SEQ_CONCAT:
            for c in x.children():
                walk(c)
        else:
            out.append(x)
    walk(t)
    return out


def literal_replace(ex, s_term, old: str, new_piece):
    """replace-all on a concatenation whose SYMBOLIC parts are assumed not to contain `old` (assumption recorded):
    only the literal parts are rewritten. new_piece: str | z3 String term."""
    parts = []
    for x in _flat_concat(s_term):
        if z3.is_string_value(x):
            lit = x.as_string()
            segs = lit.split(old)
            for i, seg in enumerate(segs):
                if i:
                    parts.append(new_piece)
                if seg:
                    parts.append(seg)
        else:
            ex.st.assume(z3.Not(z3.Contains(x, z3.StringVal(old))))
            ex.st.assumptions.add(f"symbolic path / name components contain no {old!r}")
            parts.append(x)
    return concat_str(parts)


@libfn("str.replace")
def _replace(ex, self_val, args, kwargs, fr):
    if _sconc(self_val, args[0], args[1]):
        return VStr(self_val.v.replace(args[0].v, args[1].v))
    if _sconc(args[0], args[1]) and not is_conc(self_val.v):
        return VStr(literal_replace(ex, self_val.v, args[0].v, args[1].v))
    raise Unsupported("str.replace on symbolic string (replace-all is not expressible)")


@libfn("str.lower", "str.upper", "str.strip", "str.capitalize", "str.title", "str.lstrip", "str.rstrip")
def _strmisc(ex, self_val, args, kwargs, fr):
    raise Unsupported("string case/strip method")


def _conc_str_method(name):
    def h(ex, self_val, args, kwargs, fr):
        if _sconc(self_val, *args):
            r = getattr(self_val.v, name)(*[a.v for a in args])
            return VBool(r) if isinstance(r, bool) else VStr(r)
        raise Unsupported(f"str.{name} on symbolic string")
    return h


for _n in ("lower", "upper", "strip", "capitalize", "title", "lstrip", "rstrip", "removeprefix", "removesuffix", "isdigit",
           "isidentifier", "isnumeric"):
    HANDLERS["str." + _n] = _conc_str_method(_n)


_STR_PREDS = {}


def _sym_str_pred(name):
    """str predicates (isidentifier, isdigit, isnumeric) of a symbolic string: an uninterpreted predicate of the text — nothing
    is assumed about which texts satisfy it (in particular the keywords True / False / None ARE identifiers)."""
    conc = _conc_str_method(name)

    def h(ex, self_val, args, kwargs, fr):
        if _sconc(self_val, *args):
            return conc(ex, self_val, args, kwargs, fr)
        f = _STR_PREDS.setdefault(name, z3.Function("py_str_" + name, z3.StringSort(), z3.BoolSort()))
        return VBool(f(z_str(self_val.v)))
    return h


for _n in ("isidentifier", "isdigit", "isnumeric"):
    HANDLERS["str." + _n] = _sym_str_pred(_n)


@libfn("str.format")
def _format(ex, self_val, args, kwargs, fr):
    if len(args) == 1 and not kwargs:
        piece = ex.format_value(args[0], -1, fr)
        if is_conc(self_val.v):
            if self_val.v.count("{}") == 1:
                a, b = self_val.v.split("{}")
                return VStr(concat_str([a, piece, b]))
        else:
            lits = [x.as_string() for x in _flat_concat(self_val.v) if z3.is_string_value(x)]
            if sum(l.count("{}") for l in lits) == 1:
                return VStr(literal_replace(ex, self_val.v, "{}", piece))
    return VStr(ex.st.fresh_str("fmt"))


# ---- misc stdlib -------------------------------------------------------------------------------
@libfn("copy.copy")
def _copy(ex, args, kwargs, fr):
    v = args[0]
    if isinstance(v, VRef):
        cell = ex.st.cell(v)
        if isinstance(cell, HObj) and not isinstance(cell.cls, str):
            m = ex.find_method(cell.cls, "__copy__")
            if m is not None:
                return ex.call(VFunc(m, v), [], {}, fr)
        return ex.st.alloc(cell.copy())
    return v


@libfn("copy.deepcopy")
def _deepcopy(ex, args, kwargs, fr):
    memo = {}

    def dc(v):
        if isinstance(v, VTuple):
            return VTuple([dc(x) for x in v.items])
        if isinstance(v, VRef):
            if v.addr in memo:
                return memo[v.addr]
            cell = ex.st.cell(v)
            if isinstance(cell, HObj) and not isinstance(cell.cls, str):
                m = ex.find_method(cell.cls, "__deepcopy__")
                if m is not None:
                    r = ex.call(VFunc(m, v), [ex.st.alloc(HDict([]))], {}, fr)
                    memo[v.addr] = r
                    return r
            new = ex.st.alloc(cell.copy())
            memo[v.addr] = new
            nc = ex.st.cell(new)
            if isinstance(nc, HObj):
                nc.fields = {k: (dc(x) if x is not None else None) for k, x in nc.fields.items()}
            elif isinstance(nc, HList):
                nc.items = [dc(x) for x in nc.items]
            elif isinstance(nc, HDict):
                nc.items = [(dc(k), dc(x)) for k, x in nc.items]
            return new
        if isinstance(v, (VSym, VOpaque, VSeq)):
            h = ex.cfg.lib_overrides.get(("deepcopy", getattr(v, "kind", None) or (ex.cls_name(v.cls) if isinstance(v, VSym) else "seq")))
            if h is None:
                raise Unsupported(f"deepcopy of {v!r}")
            return h(ex, v, dc, fr)
        return v       # immutable scalars, functions, classes
    return dc(args[0])


@libfn("operator.attrgetter")
def _attrgetter(ex, args, kwargs, fr):
    return VLib("operator.attrgetter()", args[0])


@libfn("operator.attrgetter()")
def _attrgetter_call(ex, self_val, args, kwargs, fr):
    key = self_val
    if not (isinstance(key, VStr) and is_conc(key.v)):
        h = ex.cfg.lib_overrides.get(("attrgetter_sym",))
        if h is not None:
            return h(ex, key, args[0], fr)
        raise Unsupported("attrgetter with symbolic key")
    obj = args[0]
    for part in key.v.split("."):
        obj = ex.getattr(obj, part, fr)
    return obj


@libfn("math.floor")
def _floor(ex, args, kwargs, fr):
    v = args[0]
    if is_conc(v.v):
        import math
        return VInt(math.floor(v.v))
    if isinstance(v, VFloat) and not is_fp(v.v):
        return VInt(z3.ToInt(v.v))
    raise Unsupported("math.floor")


@libfn("math.ceil")
def _ceil(ex, args, kwargs, fr):
    v = args[0]
    if is_conc(v.v):
        import math
        return VInt(math.ceil(v.v))
    if isinstance(v, VFloat) and not is_fp(v.v):
        return VInt(-z3.ToInt(-v.v))
    raise Unsupported("math.ceil")


@libfn("math.isnan")
def _isnan(ex, args, kwargs, fr):
    v = args[0]
    if isinstance(v, (VInt, VBool)):
        return VBool(False)
    if is_conc(v.v):
        import math
        return VBool(math.isnan(v.v))
    return VBool(z3.fpIsNaN(v.v)) if is_fp(v.v) else VBool(False)


@libfn("typing.cast")
def _cast(ex, args, kwargs, fr):
    return args[1]


@libfn("itertools.chain")
def _chain(ex, args, kwargs, fr):
    out = []
    for a in args:
        out.extend(ex.iterate(a, fr))
    return ex.st.alloc(HList(out))


@libfn("itertools.chain.from_iterable")
def _chain_from_iterable(ex, args, kwargs, fr):
    out = []
    for a in ex.iterate(args[0], fr):
        out.extend(ex.iterate(a, fr))
    return ex.st.alloc(HList(out))


@libfn("itertools.product")
def _product(ex, args, kwargs, fr):
    import itertools
    lists = [ex.iterate(a, fr) for a in args]
    return ex.st.alloc(HList([VTuple(list(t)) for t in itertools.product(*lists)]))


def arr_unary(ex, what, v):
    from . import arrays
    return arrays.arr_unary(ex, what, v)


def arr_compare(ex, op, a, b):
    from . import arrays
    return arrays.arr_compare(ex, op, a, b)


def arr_binop(ex, op, a, b):
    from . import arrays
    return arrays.arr_binop(ex, op, a, b)


def arr_inplace(ex, op, cur, val):
    from . import arrays
    return arrays.arr_inplace(ex, op, cur, val)


def arr_getitem(ex, obj, idx):
    from . import arrays
    return arrays.arr_getitem(ex, obj, idx)


def arr_setitem(ex, obj, idx, val):
    from . import arrays
    return arrays.arr_setitem(ex, obj, idx, val)


def arr_iterate(ex, v):
    from . import arrays
    return arrays.arr_iterate(ex, v)


def dtype_eq(ex, a, b):
    from . import arrays
    return arrays.dtype_eq(ex, a, b)


@libfn("objdict.update")
def _objdict_update(ex, self_val, args, kwargs, fr):
    """obj.__dict__.update(other.__dict__ | mapping): rebinds the instance attributes of obj."""
    target = ex.st.cell(self_val.info["of"])
    src = args[0]
    if isinstance(src, VOpaque) and src.kind == "objdict":
        for k, v in ex.st.cell(src.info["of"]).fields.items():
            target.fields[k] = v
        return NONE
    for k, v in ex.mapping_items(src, fr):
        if not (isinstance(k, VStr) and is_conc(k.v)):
            raise Unsupported("__dict__.update with symbolic keys")
        target.fields[k.v] = v
    return NONE


@libfn("objdict.items")
def _objdict_items(ex, self_val, args, kwargs, fr):
    return ex.st.alloc(HList([VTuple([VStr(k), v]) for k, v in ex.st.cell(self_val.info["of"]).fields.items() if isinstance(k, str) and v is not None]))


@libfn("toolz.dicttoolz.dissoc", "toolz.dissoc")
def _dissoc(ex, args, kwargs, fr):
    """toolz.dissoc(d, *keys): a new dict without the given keys."""
    items = ex.mapping_items(args[0], fr)
    return ex.st.alloc(HDict([(k, v) for k, v in items if not any(ex.same_key(k, a) for a in args[1:])]))
