"""pyvc front end: locate the *real* functions and classes of the repository under study.

Nothing here copies pyxel code: every run parses the files that are in $PYVC_REPO (default /repo)
at that moment, finds functions by qualified name and hands their AST to the symbolic executor.
The sha256 of every file and function segment that was used is recorded for the evidence.
"""
from __future__ import annotations

import ast
import hashlib
import os
import pathlib

REPO = pathlib.Path(os.environ.get("PYVC_REPO", "/repo"))


class FrontError(Exception):
    """The requested function/class does not exist (any more) in the working tree."""


def local_bindings(fn_node):
    order, first = [], {}
    own = set()

    def note(name, kind, rhs):
        own.add(name)
        if name not in first:
            first[name] = (kind, rhs)
            order.append(name)
    for a in fn_node.args.posonlyargs + fn_node.args.args + fn_node.args.kwonlyargs:
        note(a.arg, "param", None)

    def targets(t):
        for e in ast.walk(t):
            if isinstance(e, ast.Name):
                yield e.id

    def visit(body):
        for n in body:
            if isinstance(n, (ast.FunctionDef, ast.AsyncFunctionDef, ast.ClassDef)):
                note(n.name, "def", None)
                continue
            if isinstance(n, ast.Assign):
                for t in n.targets:
                    for nm in targets(t):
                        note(nm, "assign", n.value)
            elif isinstance(n, ast.AnnAssign):
                for nm in targets(n.target):
                    note(nm, "assign", n.value)
            elif isinstance(n, ast.AugAssign):
                for nm in targets(n.target):
                    note(nm, "aug", n.value)
            elif isinstance(n, (ast.For, ast.AsyncFor)):
                for nm in targets(n.target):
                    note(nm, "for", n.iter)
            elif isinstance(n, (ast.With, ast.AsyncWith)):
                for it in n.items:
                    if it.optional_vars is not None:
                        for nm in targets(it.optional_vars):
                            note(nm, "with", it.context_expr)
            elif isinstance(n, (ast.Import, ast.ImportFrom)):
                for al in n.names:
                    note((al.asname or al.name).split(".")[0], "import", None)
            for fld in ("body", "orelse", "finalbody"):
                sub = getattr(n, fld, None)
                if isinstance(sub, list):
                    visit(sub)
            for h in getattr(n, "handlers", []) or []:
                if h.name:
                    note(h.name, "except", None)
                visit(h.body)
    visit(fn_node.body)

    class Blank(ast.NodeTransformer):
        def visit_Name(self, n):
            return ast.Name(id="_", ctx=n.ctx) if n.id in own else n
    import copy
    out = []
    for nm in order:
        kind, rhs = first[nm]
        sk = ast.unparse(Blank().visit(copy.deepcopy(rhs))).replace(" ", "")[:120] if rhs is not None else ""
        out.append((nm, f"{kind}:{sk}"))
    return out


def align_locals(ref, cur):
    """Map reference local names to current ones: identical names first, then renamed ones matched by an order-preserving
    alignment of their binding signatures."""
    import difflib
    cur_names = [n for n, _ in cur]
    alias = {}
    sm = difflib.SequenceMatcher(a=[s for _, s in ref], b=[s for _, s in cur], autojunk=False)
    for blk in sm.get_matching_blocks():
        for i in range(blk.size):
            rn, cn = ref[blk.a + i][0], cur[blk.b + i][0]
            if rn != cn and rn not in cur_names:
                alias[rn] = cn
    return alias


class FunctionInfo:
    def __init__(self, module: "ModuleInfo", node: ast.FunctionDef, cls: "ClassInfo | None", kind: str = "function"):
        self.module, self.node, self.cls, self.kind = module, node, cls, kind
        self.name = node.name
        self.decorators = [ast.unparse(d) for d in node.decorator_list]

    @property
    def qualname(self) -> str:
        base = f"{self.cls.name}.{self.name}" if self.cls else self.name
        if self.kind == "setter":
            base += ".setter"
        return f"{self.module.relpath}::{base}"

    @property
    def source(self) -> str:
        return ast.get_source_segment(self.module.text, self.node) or ""

    @property
    def sha(self) -> str:
        return hashlib.sha256(self.source.encode()).hexdigest()[:16]

    def local_bindings(self):
        """[(name, signature)] of the function's locals in order of first binding. The signature abstracts from every
        local NAME (kind of binding + skeleton of the bound expression), so it survives renaming."""
        return local_bindings(self.node)

    def has_decorator(self, frag: str) -> bool:
        return any(frag in d for d in self.decorators)

    def __repr__(self):
        return f"<fn {self.qualname}>"


class ClassInfo:
    def __init__(self, module: "ModuleInfo", node: ast.ClassDef):
        self.module, self.node, self.name = module, node, node.name
        self.methods: dict[str, FunctionInfo] = {}
        self.getters: dict[str, FunctionInfo] = {}
        self.setters: dict[str, FunctionInfo] = {}
        self.classvars: dict[str, ast.expr] = {}
        self.annotations: dict[str, ast.expr] = {}
        self.is_dataclass = any("dataclass" in ast.unparse(d) for d in node.decorator_list)
        self.dataclass_fields: list[tuple[str, ast.expr | None]] = []
        for st in node.body:
            if isinstance(st, (ast.FunctionDef, ast.AsyncFunctionDef)):
                decs = [ast.unparse(d) for d in st.decorator_list]
                if any(d == "property" or d.endswith("cached_property") for d in decs):
                    self.getters[st.name] = FunctionInfo(module, st, self, "getter")
                elif any(d.endswith(".setter") for d in decs):
                    self.setters[st.name] = FunctionInfo(module, st, self, "setter")
                elif any(d.endswith(".deleter") for d in decs):
                    pass
                else:
                    kind = "function"
                    if "staticmethod" in decs:
                        kind = "static"
                    elif "classmethod" in decs:
                        kind = "classmethod"
                    self.methods[st.name] = FunctionInfo(module, st, self, kind)
            elif isinstance(st, ast.Assign):
                for t in st.targets:
                    if isinstance(t, ast.Name):
                        self.classvars[t.id] = st.value
            elif isinstance(st, ast.AnnAssign) and isinstance(st.target, ast.Name):
                self.annotations[st.target.id] = st.annotation
                if st.value is not None:
                    self.classvars[st.target.id] = st.value
                if self.is_dataclass and "ClassVar" not in ast.unparse(st.annotation):
                    self.dataclass_fields.append((st.target.id, st.value))

    @property
    def base_exprs(self) -> list[ast.expr]:
        return list(self.node.bases)

    def __repr__(self):
        return f"<class {self.module.name}.{self.name}>"


class ModuleInfo:
    def __init__(self, world: "World", name: str, path: pathlib.Path):
        self.world, self.name, self.path = world, name, path
        self.text = path.read_text()
        self.sha = hashlib.sha256(self.text.encode()).hexdigest()[:16]
        self.tree = ast.parse(self.text)
        self.relpath = str(path.relative_to(world.root))
        self.is_pkg = path.name == "__init__.py"
        self.functions: dict[str, FunctionInfo] = {}
        self.classes: dict[str, ClassInfo] = {}
        self.assigns: dict[str, ast.expr] = {}
        self.imports: dict[str, tuple] = {}      # local name -> ("module", dotted) | ("from", dotted, attr)
        self._scan(self.tree.body)

    def _scan(self, body):
        for st in body:
            if isinstance(st, (ast.FunctionDef, ast.AsyncFunctionDef)):
                self.functions[st.name] = FunctionInfo(self, st, None)
            elif isinstance(st, ast.ClassDef):
                self.classes[st.name] = ClassInfo(self, st)
            elif isinstance(st, ast.Assign):
                for t in st.targets:
                    if isinstance(t, ast.Name):
                        self.assigns[t.id] = st.value
            elif isinstance(st, ast.AnnAssign) and isinstance(st.target, ast.Name) and st.value is not None:
                self.assigns[st.target.id] = st.value
            elif isinstance(st, ast.Import):
                for a in st.names:
                    local = a.asname or a.name.split(".")[0]
                    self.imports[local] = ("module", a.name if a.asname else a.name.split(".")[0])
            elif isinstance(st, ast.ImportFrom):
                base = self._abs(st.module, st.level)
                for a in st.names:
                    nm = a.asname or a.name
                    if nm in self.imports:      # an earlier binding of the same name (re-export cycles: see World.resolve)
                        self.__dict__.setdefault("imports_earlier", {}).setdefault(nm, []).append(self.imports[nm])
                    self.imports[nm] = ("from", base, a.name)
            elif isinstance(st, ast.If):
                # `if TYPE_CHECKING:` imports matter only for annotations, but resolving them is harmless
                self._scan(st.body)
                self._scan(st.orelse)
            elif isinstance(st, ast.Try):
                self._scan(st.body)

    def _abs(self, module: str | None, level: int) -> str:
        if not level:
            return module or ""
        parts = self.name.split(".")
        if not self.is_pkg:
            parts = parts[:-1]
        parts = parts[: len(parts) - (level - 1)]
        return ".".join(parts + ([module] if module else []))


class World:
    """Index of the repository's python package, parsed lazily from the current working tree."""

    def __init__(self, root: pathlib.Path | str | None = None, package: str = "pyxel"):
        self.root = pathlib.Path(root) if root else REPO
        self.package = package
        self._mods: dict[str, ModuleInfo | None] = {}
        self.used_functions: dict[str, FunctionInfo] = {}

    # ---- modules -------------------------------------------------------------------------
    def module(self, dotted: str) -> ModuleInfo | None:
        if dotted in self._mods:
            return self._mods[dotted]
        mi = None
        if dotted == self.package or dotted.startswith(self.package + "."):
            base = self.root.joinpath(*dotted.split("."))
            for cand in (base.with_suffix(".py"), base / "__init__.py"):
                if cand.is_file():
                    mi = ModuleInfo(self, dotted, cand)
                    break
        self._mods[dotted] = mi
        return mi

    def module_by_path(self, relpath: str) -> ModuleInfo:
        p = pathlib.PurePosixPath(relpath)
        parts = list(p.with_suffix("").parts)
        if parts[-1] == "__init__":
            parts = parts[:-1]
        mi = self.module(".".join(parts))
        if mi is None:
            raise FrontError(f"no module {relpath} in {self.root}")
        return mi

    # ---- lookup by qualified name "pyxel/x/y.py::Class.method[.setter]" --------------------
    def function(self, qual: str) -> FunctionInfo:
        relpath, _, name = qual.partition("::")
        mi = self.module_by_path(relpath)
        parts = name.split(".")
        fi = None
        if len(parts) == 1:
            fi = mi.functions.get(parts[0])
        else:
            ci = mi.classes.get(parts[0])
            if ci is not None:
                if len(parts) == 3 and parts[2] == "setter":
                    fi = ci.setters.get(parts[1])
                elif len(parts) == 3 and parts[2] == "getter":
                    fi = ci.getters.get(parts[1])
                elif len(parts) == 2:
                    fi = ci.methods.get(parts[1]) or ci.getters.get(parts[1])
        if fi is None:
            raise FrontError(f"function {qual} not found in the working tree")
        self.used_functions[fi.qualname] = fi
        return fi

    def cls(self, qual: str) -> ClassInfo:
        relpath, _, name = qual.partition("::")
        mi = self.module_by_path(relpath)
        ci = mi.classes.get(name)
        if ci is None:
            raise FrontError(f"class {qual} not found in the working tree")
        return ci

    # ---- name resolution across modules (follows `from x import y` chains) -----------------
    def resolve(self, mod: ModuleInfo, name: str, depth: int = 0):
        """Return ("function", FunctionInfo) | ("class", ClassInfo) | ("assign", ModuleInfo, expr)
        | ("module", dotted) | ("lib", dotted) | None."""
        if depth > 12:
            return None
        if name in mod.functions:
            return ("function", mod.functions[name])
        if name in mod.classes:
            return ("class", mod.classes[name])
        if name in mod.assigns:
            return ("assign", mod, mod.assigns[name])
        if name in mod.imports:
            imp = mod.imports[name]
            if imp[0] == "module":
                return ("module", imp[1])
            _, base, attr = imp
            target = self.module(base)
            if target is None:
                # maybe the attribute is itself a submodule of a repo package
                return ("lib", f"{base}.{attr}")
            sub = self.module(f"{base}.{attr}")
            r = self.resolve(target, attr, depth + 1)
            if r is not None:
                return r
            if sub is not None:
                return ("module", f"{base}.{attr}")
            # a package __init__ that re-imports a name from a submodule which itself takes it from the package (import cycle): at
            # run time the name is already bound by the EARLIER import of the same name; follow that one
            for imp2 in reversed(mod.__dict__.get("imports_earlier", {}).get(name, [])):
                if imp2[0] != "from":
                    continue
                t2 = self.module(imp2[1])
                r2 = self.resolve(t2, imp2[2], depth + 1) if t2 is not None else None
                if r2 is not None:
                    return r2
            return None
        return None

    def resolve_dotted(self, dotted: str):
        """Resolve "pyxel.a.b.name" to the object it denotes."""
        parts = dotted.split(".")
        for i in range(len(parts), 0, -1):
            mi = self.module(".".join(parts[:i]))
            if mi is not None:
                rest = parts[i:]
                if not rest:
                    return ("module", mi.name)
                r = self.resolve(mi, rest[0])
                if r and r[0] == "class" and len(rest) == 2:
                    ci = r[1]
                    if rest[1] in ci.methods:
                        return ("function", ci.methods[rest[1]])
                return r if len(rest) == 1 else None
        return ("lib", dotted)

    def mro(self, ci: ClassInfo) -> list[ClassInfo]:
        """Linearisation good enough for single inheritance chains (all the repo's targets)."""
        out, seen = [], set()

        def walk(c: ClassInfo):
            if id(c) in seen:
                return
            seen.add(id(c))
            out.append(c)
            for b in c.base_exprs:
                if isinstance(b, ast.Name):
                    r = self.resolve(c.module, b.id)
                    if r and r[0] == "class":
                        walk(r[1])
                elif isinstance(b, ast.Subscript) and isinstance(b.value, ast.Name):
                    r = self.resolve(c.module, b.value.id)
                    if r and r[0] == "class":
                        walk(r[1])

        walk(ci)
        return out

    def lib_bases(self, ci: ClassInfo) -> list[str]:
        """Names of non-repo base classes anywhere in the MRO (e.g. MutableMapping)."""
        out = []
        for c in self.mro(ci):
            for b in c.base_exprs:
                n = b.id if isinstance(b, ast.Name) else (ast.unparse(b))
                r = self.resolve(c.module, n) if isinstance(b, ast.Name) else None
                if not (r and r[0] == "class"):
                    out.append(n)
        return out

    def all_modules(self):
        for p in sorted(self.root.joinpath(self.package).rglob("*.py")):
            rel = p.relative_to(self.root)
            yield self.module_by_path(str(rel))
