"""Scalar operations on symbolic values (Python semantics stated per operation)."""
from __future__ import annotations

import ast
import math

import z3

from .values import *  # noqa: F401,F403
from .state import Unsupported

fl = z3.Function("fl", z3.RealSort(), z3.RealSort())        # abstract binary64 rounding ("rnd" mode)
parse_float = z3.Function("parse_float", z3.StringSort(), z3.RealSort())
parse_float_fp = z3.Function("parse_float_fp", z3.StringSort(), F64)
pow10 = z3.Function("pow10", z3.RealSort(), z3.RealSort())
log10 = z3.Function("log10", z3.RealSort(), z3.RealSort())
upow = z3.Function("upow", z3.RealSort(), z3.RealSort(), z3.RealSort())
uexp = z3.Function("uexp", z3.RealSort(), z3.RealSort())
usqrt = z3.Function("usqrt", z3.RealSort(), z3.RealSort())
str_of_int = z3.IntToStr
repr_of = z3.Function("repr_of", z3.IntSort(), z3.StringSort())
pow2 = z3.Function("pow2", z3.IntSort(), z3.IntSort())       # 2**n for n >= 0; facts instantiated by contracts


class Cfg:
    """Per-run configuration of the executor."""

    def __init__(self, float_mode="real"):
        self.float_mode = float_mode         # real | rnd | fp
        self.contracts = {}                  # qualname -> Contract
        self.loops = {}                      # (qualname, ordinal) -> LoopSpec
        self.field_types = {}                # (class name, field) -> sort descriptor
        self.lib_overrides = {}              # dotted name -> handler
        self.abstract_blocks = {}            # (qualname, 'if <test>') -> handler(ex, stmt, frame)
        self.name_overrides = {}             # global names bound to boundary values (e.g. global_options)
        self.lib_prefix = {}                 # dotted-name prefix -> boundary handler
        self.inline_depth = 12
        self.merge_optional = False          # `X if c else None` -> Maybe(c, X) without path split
        self.max_unroll = 64
        self.warn_raises = False             # warnings.warn(...) may raise its category (a warning filter set to "error"); otherwise dropped


def is_num(v) -> bool:
    return isinstance(v, (VInt, VFloat, VBool))


def as_int_term(v):
    if isinstance(v, VBool):
        return (1 if v.v else 0) if is_conc(v.v) else z3.If(v.v, 1, 0)
    return v.v


def to_real(v):
    """Exact real value of a numeric Val whose float part is Real-sorted (or concrete)."""
    if isinstance(v, VFloat):
        if is_conc(v.v):
            return real_of_float(v.v)
        if is_fp(v.v):
            return z3.fpToReal(v.v)
        return v.v
    t = as_int_term(v)
    return z3.RealVal(t) if is_conc(t) else z3.ToReal(t)


def to_fp(v):
    if isinstance(v, VFloat):
        return z3.FPVal(v.v, F64) if is_conc(v.v) else v.v
    t = as_int_term(v)
    if is_conc(t):
        return z3.FPVal(float(t), F64)
    return z3.fpToFP(RNE, z3.ToReal(t), F64)


def any_fp(*vs) -> bool:
    return any(isinstance(v, VFloat) and is_fp(v.v) for v in vs)


def truth(v, ex=None):
    """Python truthiness as bool | z3 Bool."""
    if isinstance(v, VNone):
        return False
    if isinstance(v, VBool):
        return v.v
    if isinstance(v, VInt):
        return (v.v != 0)
    if isinstance(v, VFloat):
        if is_conc(v.v):
            return v.v != 0.0
        if is_fp(v.v):
            return z3.Not(z3.fpIsZero(v.v))
        return v.v != 0
    if isinstance(v, VStr):
        return (len(v.v) > 0) if is_conc(v.v) else (z3.Length(v.v) > 0)
    if isinstance(v, VTuple):
        return len(v.items) > 0
    if isinstance(v, VSeq):
        return v.n > 0
    if isinstance(v, (VFunc, VClass, VLib, VSlice)):
        return True
    if isinstance(v, VRange):
        lo, hi = as_int_term(v.lo), as_int_term(v.hi)
        return hi > lo
    raise Unsupported(f"truth of {v!r}")


def z_not(c):
    return (not c) if isinstance(c, bool) else z3.Not(c)


def z_and(*cs):
    out = []
    for c in cs:
        if isinstance(c, bool):
            if not c:
                return False
        else:
            out.append(c)
    return True if not out else (out[0] if len(out) == 1 else z3.And(*out))


def z_or(*cs):
    out = []
    for c in cs:
        if isinstance(c, bool):
            if c:
                return True
        else:
            out.append(c)
    return False if not out else (out[0] if len(out) == 1 else z3.Or(*out))


CMP = {ast.Lt: "lt", ast.LtE: "le", ast.Gt: "gt", ast.GtE: "ge", ast.Eq: "eq", ast.NotEq: "ne"}


def num_compare(op: str, a, b):
    """a <op> b for numeric Vals, returns bool | z3 Bool. IEEE semantics in fp mode (NaN compares
    false except !=); exact mathematical comparison between ints and floats, as CPython does."""
    ca = is_conc(a.v) and is_conc(b.v)
    if ca:
        x, y = (as_int_term(a) if not isinstance(a, VFloat) else a.v), (as_int_term(b) if not isinstance(b, VFloat) else b.v)
        return {"lt": x < y, "le": x <= y, "gt": x > y, "ge": x >= y, "eq": x == y, "ne": x != y}[op]
    if any_fp(a, b):
        if op == "ne":
            r = num_compare("eq", a, b)
            return z_not(r)
        fa, fb = isinstance(a, VFloat), isinstance(b, VFloat)
        both_float_like = (fa or is_conc(as_int_term(a))) and (fb or is_conc(as_int_term(b)))
        if both_float_like and all(not (not isinstance(v, VFloat) and abs(as_int_term(v)) >= 2**53) for v in (a, b)):
            x, y = to_fp(a), to_fp(b)
            return {"lt": z3.fpLT, "le": z3.fpLEQ, "gt": z3.fpGT, "ge": z3.fpGEQ, "eq": z3.fpEQ}[op](x, y)
        # symbolic int against symbolic FP: exact comparison with NaN / inf guards
        fpv, other, flipped = (a, b, False) if fa and is_fp(a.v) else (b, a, True)
        rv, ro = z3.fpToReal(fpv.v), to_real(other)
        l, r = (rv, ro) if not flipped else (ro, rv)
        core = {"lt": l < r, "le": l <= r, "gt": l > r, "ge": l >= r, "eq": l == r}[op]
        pinf = z3.And(z3.fpIsInf(fpv.v), z3.fpIsPositive(fpv.v))
        ninf = z3.And(z3.fpIsInf(fpv.v), z3.fpIsNegative(fpv.v))
        if not flipped:   # fp op other
            infres = {"lt": ninf, "le": ninf, "gt": pinf, "ge": pinf, "eq": z3.BoolVal(False)}[op]
        else:
            infres = {"lt": pinf, "le": pinf, "gt": ninf, "ge": ninf, "eq": z3.BoolVal(False)}[op]
        return z3.If(z3.fpIsNaN(fpv.v), z3.BoolVal(False), z3.If(z3.fpIsInf(fpv.v), infres, core))
    if isinstance(a, VFloat) or isinstance(b, VFloat):
        x, y = to_real(a), to_real(b)
    else:
        x, y = z_int(as_int_term(a)), z_int(as_int_term(b))
    return {"lt": x < y, "le": x <= y, "gt": x > y, "ge": x >= y, "eq": x == y, "ne": x != y}[op]


def wrap_float(cfg: Cfg, t):
    if cfg.float_mode == "rnd" and not is_conc(t) and not is_fp(t):
        return VFloat(fl(t))
    return VFloat(t)


def trunc_real(t):
    return z3.If(t >= 0, z3.ToReal(z3.ToInt(t)), -z3.ToReal(z3.ToInt(-t)))


def floordiv_int(a, b):
    a, b = z_int(a), z_int(b)
    return z3.If(b > 0, a / b, (-a) / (-b))


def arith(cfg: Cfg, op, a, b):
    """Binary arithmetic on numeric scalars. ZeroDivisionError is the caller's job."""
    fa = isinstance(a, VFloat) or isinstance(b, VFloat)
    if not fa:
        x, y = as_int_term(a), as_int_term(b)
        conc = is_conc(x) and is_conc(y)
        if isinstance(op, ast.Add):
            return VInt(x + y)
        if isinstance(op, ast.Sub):
            return VInt(x - y)
        if isinstance(op, ast.Mult):
            return VInt(x * y)
        if isinstance(op, ast.FloorDiv):
            return VInt(x // y) if conc else VInt(floordiv_int(x, y))
        if isinstance(op, ast.Mod):
            return VInt(x % y) if conc else VInt(z_int(x) - z_int(y) * floordiv_int(x, y))
        if isinstance(op, ast.Pow):
            if conc and y >= 0:
                return VInt(x ** y)
            if is_conc(y) and 0 <= y <= 8:
                r = 1
                for _ in range(y):
                    r = r * x
                return VInt(r)
            if is_conc(x) and x == 2:
                return VInt(pow2(z_int(y)))
            raise Unsupported("int ** symbolic")
        if isinstance(op, ast.Div):
            if conc:
                return VFloat(x / y)
            if cfg.float_mode == "fp":
                return VFloat(z3.fpDiv(RNE, to_fp(a), to_fp(b)))
            return wrap_float(cfg, to_real(a) / to_real(b))
        if isinstance(op, (ast.BitAnd, ast.BitOr, ast.BitXor, ast.LShift, ast.RShift)) and conc:
            import operator
            f = {ast.BitAnd: operator.and_, ast.BitOr: operator.or_, ast.BitXor: operator.xor,
                 ast.LShift: operator.lshift, ast.RShift: operator.rshift}[type(op)]
            return VInt(f(x, y))
        raise Unsupported(f"int op {type(op).__name__}")
    # float arithmetic
    xa = a.v if isinstance(a, VFloat) else as_int_term(a)
    xb = b.v if isinstance(b, VFloat) else as_int_term(b)
    if is_conc(xa) and is_conc(xb):
        import operator
        f = {ast.Add: operator.add, ast.Sub: operator.sub, ast.Mult: operator.mul, ast.Div: operator.truediv,
             ast.FloorDiv: operator.floordiv, ast.Mod: operator.mod, ast.Pow: operator.pow}[type(op)]
        try:
            return VFloat(float(f(xa, xb)))
        except OverflowError:
            raise Unsupported("float overflow in concrete arithmetic")
    if any_fp(a, b) or cfg.float_mode == "fp":
        x, y = to_fp(a), to_fp(b)
        f = {ast.Add: z3.fpAdd, ast.Sub: z3.fpSub, ast.Mult: z3.fpMul, ast.Div: z3.fpDiv}.get(type(op))
        if f is None:
            raise Unsupported(f"fp op {type(op).__name__}")
        return VFloat(f(RNE, x, y))
    x, y = to_real(a), to_real(b)
    if cfg.float_mode == "rnd":
        # an int operand >= 2**53 is first converted (rounded) to binary64
        if not isinstance(a, VFloat) and not (is_conc(xa) and abs(xa) < 2**53):
            x = fl(x)
        if not isinstance(b, VFloat) and not (is_conc(xb) and abs(xb) < 2**53):
            y = fl(y)
    if isinstance(op, ast.Add):
        return wrap_float(cfg, x + y)
    if isinstance(op, ast.Sub):
        return wrap_float(cfg, x - y)
    if isinstance(op, ast.Mult):
        return wrap_float(cfg, x * y)
    if isinstance(op, ast.Div):
        return wrap_float(cfg, x / y)
    if isinstance(op, ast.FloorDiv):
        return wrap_float(cfg, z3.ToReal(z3.ToInt(x / y)))      # floor for Real (ToInt is floor)
    if isinstance(op, ast.Pow):
        if is_conc(xb) and float(xb) == int(xb) and 0 <= int(xb) <= 4:
            r = z3.RealVal(1)
            for _ in range(int(xb)):
                r = r * x
            return wrap_float(cfg, r)
        if is_conc(xa) and float(xa) == 10.0:
            return wrap_float(cfg, pow10(y))
        return wrap_float(cfg, upow(x, y))
    raise Unsupported(f"float op {type(op).__name__}")


def is_zero(v):
    if isinstance(v, VFloat):
        if is_conc(v.v):
            return v.v == 0.0
        return z3.fpIsZero(v.v) if is_fp(v.v) else (v.v == 0)
    t = as_int_term(v)
    return t == 0


def neg(cfg, v):
    if isinstance(v, VFloat):
        if is_conc(v.v):
            return VFloat(-v.v)
        return VFloat(z3.fpNeg(v.v)) if is_fp(v.v) else VFloat(-v.v)
    return VInt(-as_int_term(v))


def str_eq(a: VStr, b: VStr):
    if is_conc(a.v) and is_conc(b.v):
        return a.v == b.v
    return z_str(a.v) == z_str(b.v)


def concat_str(parts):
    parts = [p for p in parts if not (isinstance(p, str) and p == "")]
    if not parts:
        return ""
    if all(isinstance(p, str) for p in parts):
        return "".join(parts)
    zs = [z_str(p) for p in parts]
    return zs[0] if len(zs) == 1 else z3.Concat(*zs)


def int_of(v, what="int"):
    if isinstance(v, (VInt, VBool)):
        return as_int_term(v)
    raise Unsupported(f"{what}: expected int, got {v!r}")
