"""Harness layer: units of verification, obligation discharge, witnesses.

A *unit* is a python function in /verif/contracts/Cxx.py that symbolically executes real repository
functions (through pyvc.engine) under the preconditions of a contract and states the postconditions
as named obligations. Units run in worker processes and return plain data.
"""
from __future__ import annotations

import fractions
import re
import os
import subprocess
import tempfile
import time
import traceback

import z3

from .engine import Ex, Frame, Contract, LoopSpec, _Return
from .front import World, FrontError
from .ops import Cfg
from .state import State, Unsupported, PathEnd, PyExc, explore, Obligation
from .values import *  # noqa: F401,F403

UNITS: dict[str, list] = {}          # property id -> [(name, func)]
QUICK_TIMEOUT_MS = int(os.environ.get("PYVC_TIMEOUT_MS", "20000"))


def unit(prop: str, name: str):
    def deco(f):
        UNITS.setdefault(prop, []).append((name, f))
        return f
    return deco


def py_of(model, t):
    """z3 model value -> python value (for witnesses)."""
    if isinstance(t, (int, float, str, bool)) or t is None:
        return t
    v = model.eval(t, model_completion=True)
    if z3.is_int_value(v):
        return v.as_long()
    if z3.is_rational_value(v):
        fr = v.as_fraction()
        return float(fractions.Fraction(fr.numerator, fr.denominator))
    if z3.is_algebraic_value(v):
        return float(v.approx(20).as_fraction())
    if z3.is_true(v):
        return True
    if z3.is_false(v):
        return False
    if z3.is_string_value(v):
        return v.as_string()
    if z3.is_fp(v):
        if z3.is_fprm(v):
            return str(v)
        s = z3.simplify(v)
        if z3.fpIsNaN(s) is not None:
            try:
                if s.isNaN():
                    return float("nan")
                if s.isInf():
                    return float("-inf") if s.isNegative() else float("inf")
                if s.isZero():
                    return -0.0 if s.isNegative() else 0.0
            except Exception:
                pass
        try:
            sig, exp, sgn = s.significand_as_long(), s.exponent_as_long(biased=True), s.sign()
            bits = (int(sgn) << 63) | (exp << 52) | sig
            import struct
            return struct.unpack("<d", struct.pack("<Q", bits))[0]
        except Exception:
            return str(s)
    return str(v)


class Path:
    """One explored path of a function run, with the executor kept for state inspection."""

    def __init__(self, kind, value, ex: Ex, error=None):
        self.kind, self.value, self.ex, self.error = kind, value, ex, error
        self.st = ex.st

    def field(self, ref, name):
        return self.st.cell(ref).fields.get(name)

    def exc_name(self):
        return self.ex.exc_class_name(self.value) if self.kind == "raise" else None


class PathList(list):
    """The explored paths of one run. Iterating restores, before each path is handed out, the content the unit's TRACKED record
    containers (Unit.track) had when THAT path ended — paths are explored by re-running the setup, so a record shared by the
    contract closures would otherwise describe the last path only."""

    def __init__(self, paths, tracked):
        super().__init__(paths)
        self._tracked = tracked

    def __iter__(self):
        for p in list.__iter__(self):
            for o, snap in zip(self._tracked, getattr(p.ex, "_tracked_snap", [])):
                if isinstance(o, dict):
                    o.clear()
                    o.update(snap)
                elif isinstance(o, list):
                    o[:] = snap
            yield p


class Unit:
    def track(self, obj):
        """Register a dict / list that contract closures fill during a path (see PathList)."""
        self.__dict__.setdefault("_tracked", []).append(obj)
        return obj

    def __init__(self, prop: str, name: str, tier: str, root=None):
        self.prop, self.name, self.tier = prop, name, tier
        self.world = World(root)
        self.results: list[dict] = []
        self.functions: dict[str, dict] = {}
        self.assumptions: set[str] = set()
        self.lib_used: set[str] = set()
        self.inlined: set[str] = set()
        self.dropped: set[str] = set()
        self.undecided: list[str] = []
        self.paths_explored = 0
        self.timeout_ms = QUICK_TIMEOUT_MS if tier == "quick" else 3 * QUICK_TIMEOUT_MS
        self.solver_s = 0.0

    # ---- locating real code -----------------------------------------------------------------
    def fn(self, qual: str):
        fi = self.world.function(qual)
        self.functions.setdefault(fi.qualname, {"sha": fi.sha, "file_sha": fi.module.sha, "paths": 0, "obligations": 0, "role": "under contract"})
        return fi

    def cls(self, qual: str):
        return self.world.cls(qual)

    def assume_note(self, text: str):
        self.assumptions.add(text)

    # ---- running ----------------------------------------------------------------------------
    def paths(self, fi, setup, cfg: Cfg | None = None, max_paths=4000, label=None, then=None):
        """Explore all paths of fi(*args, **kwargs); setup(ex) -> (args, kwargs) builds symbolic inputs.
        Returns list[Path] (kinds: return | raise). Unsupported => UNDECIDED entry, empty list."""
        cfg = cfg or Cfg()
        exs = []
        # record containers (plain dict / list) that the setup and the contract closures of this run share are tracked per path
        tracked = self.__dict__.setdefault("_tracked", [])

        def closure_records(f, depth=0):
            for c in (getattr(f, "__closure__", None) or ()):
                try:
                    o = c.cell_contents
                except ValueError:
                    continue
                if type(o) in (dict, list) and all(o is not t for t in tracked):
                    tracked.append(o)
                elif callable(o) and depth < 2 and getattr(o, "__closure__", None):
                    closure_records(o, depth + 1)
        closure_records(setup)
        for table in (cfg.contracts, cfg.lib_overrides, cfg.lib_prefix, getattr(cfg, "loops", {}), getattr(cfg, "abstract_blocks", {})):
            for v in list(table.values()):
                for f in (v, getattr(v, "apply", None), getattr(v, "with_apply", None), getattr(v, "inv", None), getattr(v, "havoc", None)):
                    if callable(f):
                        closure_records(f)

        def run(st):
            ex = Ex(self.world, st, cfg)
            ex.root_fn = fi
            exs.append(ex)
            args, kwargs = setup(ex)
            fr = Frame(None, fi.module)
            from .values import VFunc
            import copy as _copy
            try:
                v = ex.call_function(VFunc(fi), list(args), dict(kwargs), fr)
                if then is not None:
                    # further real calls on the result (a round trip, a second operation): INSIDE the exploration, so that every
                    # branch they take is explored like those of the call itself
                    ex.then_value, ex.then_exc = None, None
                    try:
                        ex.then_value = then(ex, v)
                    except PyExc as pe2:
                        ex.then_exc = pe2
                return "return", v
            except PyExc as pe:
                return "raise", pe.val
            finally:
                ex._tracked_snap = [_copy.copy(o) for o in self.__dict__.get("_tracked", [])]
        try:
            res = explore(run, max_paths=max_paths)
        except Unsupported as e:
            self.undecided.append(f"{label or fi.qualname}: {e}")
            self.results.append({"name": f"{self.prop}.{self.name}.supported[{label or fi.name}]", "function": fi.qualname,
                                 "verdict": "undecided", "reason": f"unsupported: {e}", "solver": None, "seconds": 0.0})
            return []
        except FrontError as e:
            self.undecided.append(str(e))
            return []
        out = []
        for r, ex in zip(res, exs):
            self.lib_used |= ex.lib_used
            self.inlined |= ex.inlined
            self.dropped |= ex.dropped
            self.assumptions |= r.state.assumptions
            if r.kind == "end":
                # infeasible / generic-iteration end: its internal obligations still count
                self._discharge_internal(fi, ex)
                continue
            self._discharge_internal(fi, ex)
            out.append(Path(r.kind, r.value, ex))
        self.paths_explored += len(out)
        self.functions.setdefault(fi.qualname, {"sha": fi.sha, "file_sha": fi.module.sha, "paths": 0, "obligations": 0, "role": "under contract"})
        self.functions[fi.qualname]["paths"] += len(out)
        for q in self.inlined:
            f2 = self.world.used_functions.get(q)
            if f2 is not None and q not in self.functions:
                self.functions[q] = {"sha": f2.sha, "file_sha": f2.module.sha, "paths": 0, "obligations": 0, "role": "inlined"}
        return PathList(out, list(self.__dict__.get("_tracked", [])))

    def _discharge_internal(self, fi, ex):
        for ob in ex.st.obligations:
            if getattr(ob, "_done", False):
                continue
            ob._done = True
            self._solve(f"{self.prop}.{ob.name}", fi.qualname, ob.pc, ob.goal, ob.info.get("witness") or getattr(self, "internal_witness", None),
                        ob.info.get("replay") or getattr(self, "internal_replay", None), ob.info)

    # ---- obligations ------------------------------------------------------------------------
    def oblige(self, path: Path | None, name: str, goal, witness=None, replay=None, fnq=None, hyps=None, info=None):
        """Prove `goal` under the path condition (plus hyps). witness: dict label -> z3 term / python value
        evaluated in the counter-model; replay: callable(witness_values) -> scenario dict."""
        pc = list(path.st.pc) if path is not None else []
        pc += list(hyps or [])
        fnq = fnq or (path.ex.root_fn.qualname if path is not None and path.ex.root_fn else "")
        return self._solve(f"{self.prop}.{name}", fnq, pc, goal, witness, replay, info or {})

    def _solve(self, name, fnq, pc, goal, witness, replay, info):
        if isinstance(goal, bool):
            goal = z3.BoolVal(goal)
        t0 = time.time()
        verdict, model, solver, s = None, None, "z3", None
        # Escalating attempts: solver run time on nonlinear queries is erratic (same query 0.04 s or > 20 s
        # depending on term numbering), so a short first try, the goal's cone of influence, another seed, then
        # the full budget. `sat` is only accepted from an attempt that carries the complete path condition.
        # an obligation already refuted three times in this unit (other paths / instances) is established as failing: further
        # instances get one short attempt, so that a broken tree does not cost minutes of solver time
        base = re.sub(r"\[.*$", "", name)
        often = getattr(self, "_refuted_count", {}).get(base, 0) >= 3
        ladder = ((1500, 0),) if often else ((2500, 0), (None, 0), (8000, 7), (self.timeout_ms, 0))
        for attempt, (budget, seed) in enumerate(ladder):
            if budget is None:
                if relevant_retry(pc, goal, 6000):
                    verdict, solver = "discharged", "z3 (cone of influence)"
                    break
                continue
            s = z3.Solver()
            s.set("timeout", budget)
            if seed:
                s.set("random_seed", seed)
                s.set("smt.random_seed", seed)
            for c in pc:
                s.add(c)
            s.add(z3.Not(goal))
            r = s.check()
            if r == z3.unsat:
                verdict = "discharged"
                break
            if r == z3.sat:
                verdict, model = "refuted", s.model()
                small = (info or {}).get("small")
                if small and not often:      # prefer a counter-model with small dimensions (replayable)
                    for bound in (4, 12):
                        s.push()
                        s.add(*[z3.And(t <= bound, t >= -bound) for t in small if isinstance(t, z3.ExprRef)])
                        if s.check() == z3.sat:
                            model = s.model()
                            s.pop()
                            break
                        s.pop()
                break
        if verdict is None and often:
            verdict = "undecided"
        if verdict == "refuted":
            self._refuted_count = getattr(self, "_refuted_count", {})
            self._refuted_count[base] = self._refuted_count.get(base, 0) + 1
        if verdict is None:
            r2 = cvc5_check(s, self.timeout_ms)      # second back end on the SMT-LIB2 export
            if r2 == "unsat":
                verdict, solver = "discharged", "cvc5"
            else:
                # last rung before giving up: the full query once more with another seed and three times the budget (solver budgets are
                # wall-clock: on a machine whose cores are all busy a query that normally takes 15 s must not flip to undecided)
                s3 = z3.Solver()
                s3.set("timeout", 3 * self.timeout_ms)
                s3.set("random_seed", 3)
                s3.set("smt.random_seed", 3)
                for c in pc:
                    s3.add(c)
                s3.add(z3.Not(goal))
                verdict = "discharged" if s3.check() == z3.unsat else "undecided"
                if verdict == "discharged":
                    solver = "z3 (extended budget)"
        dt = time.time() - t0
        self.solver_s += dt
        rec = {"name": name, "function": fnq, "verdict": verdict, "solver": solver, "seconds": round(dt, 3)}
        if info:
            rec["info"] = {k: v for k, v in info.items() if isinstance(v, (str, int, float, bool))}
        if verdict == "discharged" and self.tier == "thorough" and s is not None:
            # thorough tier: every discharged obligation is re-checked on its SMT-LIB2 export by independent back
            # ends (cvc5 1.0.3, then the Debian z3 4.8.12 binary). `sat` from either one is a solver disagreement:
            # the obligation is reported undecided (never a violation, never proved).
            sec = second_opinion(s, int(os.environ.get("PYVC_SECOND_MS", "4000")))
            rec["second"] = sec
            if sec.startswith("sat"):
                verdict = rec["verdict"] = "undecided"
                rec["reason"] = f"solver disagreement: {solver} says unsat, {sec}"
        if verdict == "undecided" and "reason" not in rec:
            rec["reason"] = f"solver: {s.reason_unknown()}"
        if verdict == "refuted":
            w = {}
            for k, t in (witness or {}).items():
                try:
                    w[k] = py_of(model, t)
                except Exception as e:       # pragma: no cover
                    w[k] = f"<{e}>"
            rec["witness"] = w
            rec["model"] = str(model)[:1500]
            if replay is not None:
                try:
                    rec["scenario"] = replay(w)
                except Exception as e:
                    rec["scenario_error"] = f"{type(e).__name__}: {e}"
        self._selftest(rec, replay)
        if fnq in self.functions:
            self.functions[fnq]["obligations"] += 1
        if len(self.results) < 3 or verdict != "discharged":
            try:
                rec["smt2"] = s.to_smt2()[:1200]
            except Exception:
                pass
        self.results.append(rec)
        return verdict == "discharged"

    def _selftest(self, rec, replay):
        """PYVC_REPLAY_SELFTEST=1 (tools/replay_selftest.py): attach the scenario every replay callable builds from an EMPTY
        witness, so that it can be run on the unchanged tree (it must hold there, or it would confirm anything)."""
        if replay is None or not os.environ.get("PYVC_REPLAY_SELFTEST"):
            return
        seen = self.__dict__.setdefault("_selftest_seen", set())
        if id(replay) in seen:
            return
        seen.add(id(replay))
        try:
            sc = replay({})
        except Exception:
            return
        if isinstance(sc, dict) and sc.get("code"):
            rec["selftest_scenario"] = sc

    def static(self, name: str, ok: bool, fnq: str, detail: str, replay=None, witness=None):
        """Syntactic / call-graph obligation decided by the front end (no solver)."""
        rec = {"name": f"{self.prop}.{name}", "function": fnq, "verdict": "discharged" if ok else "refuted",
               "solver": "syntactic", "seconds": 0.0, "detail": detail}
        if not ok:
            rec["witness"] = witness or {}
            if replay is not None:
                rec["scenario"] = replay(witness or {})
        self._selftest(rec, replay)
        self.results.append(rec)
        return ok

    def guard(self, name: str, ok: bool, fnq: str, detail: str):
        """Vacuity guard (something was found / explored at all): holds, or leaves the unit UNDECIDED -- never a refutation, since 'nothing to
        look at' says the contract lost its grip on the code, not that the code is wrong."""
        if ok:
            self.results.append({"name": f"{self.prop}.{name}", "function": fnq, "verdict": "discharged", "solver": "cover", "seconds": 0.0, "detail": detail})
        else:
            self.undecide(name, fnq, "vacuity: " + detail)
        return ok

    def undecide(self, name: str, fnq: str, reason: str):
        self.results.append({"name": f"{self.prop}.{name}", "function": fnq, "verdict": "undecided", "solver": None,
                             "seconds": 0.0, "reason": reason})

    def cover(self, name: str, paths, pred):
        """Vacuity guard: at least one path satisfies pred (e.g. a normal return exists)."""
        ok = any(pred(p) for p in paths)
        self.results.append({"name": f"{self.prop}.{name}", "function": "", "verdict": "discharged" if ok else "undecided",
                             "solver": "cover", "seconds": 0.0, "reason": None if ok else "vacuity: no path reaches the covered outcome"})
        return ok


def _symbols(t, cache={}):
    out, stack, seen = set(), [t], set()
    while stack:
        x = stack.pop()
        if x.get_id() in seen:
            continue
        seen.add(x.get_id())
        if z3.is_app(x):
            d = x.decl()
            if d.kind() == z3.Z3_OP_UNINTERPRETED or d.kind() == z3.Z3_OP_RECURSIVE:
                out.add(d.name())
            stack.extend(x.children())
        elif z3.is_quantifier(x):
            stack.append(x.body())
    return out


def relevant_retry(pc, goal, timeout_ms) -> bool:
    """Try to prove goal from growing cones of influence (hypotheses sharing symbols with the goal)."""
    syms = [(_symbols(c), c) for c in pc if isinstance(c, z3.ExprRef)]
    cone = _symbols(goal)
    for rounds in range(3):
        chosen = [c for sy, c in syms if sy & cone]
        s = z3.Solver()
        s.set("timeout", timeout_ms)
        s.add(*chosen)
        s.add(z3.Not(goal))
        if s.check() == z3.unsat:
            return True
        new = set(cone)
        for sy, c in syms:
            if sy & cone:
                new |= sy
        if new == cone:
            break
        cone = new
    return False


def cvc5_check(solver: z3.Solver, timeout_ms: int) -> str:
    try:
        txt = solver.to_smt2()
    except Exception:
        return "unknown"
    if "fp." in txt and "RoundingMode" in txt and len(txt) > 200000:
        return "unknown"
    for n in set(re.findall(r"define-funs-rec\s*\(\s*\(\s*([^\s()]+)", txt)) | set(re.findall(r"define-fun-rec\s+([^\s()]+)", txt)):
        txt = txt.replace(f"(_ {n} 0)", n)          # z3 5.x's printed form of a recursive-function application (see second_opinion)
    with tempfile.NamedTemporaryFile("w", suffix=".smt2", delete=False) as f:
        f.write("(set-logic ALL)\n" + txt)
        path = f.name
    try:
        out = subprocess.run(["/usr/bin/cvc5", "--strings-exp", f"--tlimit={timeout_ms}", path], capture_output=True, text=True,
                             timeout=timeout_ms / 1000 + 5)
        first = out.stdout.strip().splitlines()[0] if out.stdout.strip() else "unknown"
        return first if first in ("sat", "unsat") else "unknown"
    except Exception:
        return "unknown"
    finally:
        os.unlink(path)


def second_opinion(solver: z3.Solver, timeout_ms: int) -> str:
    try:
        txt = solver.to_smt2()
    except Exception:
        return "unknown (no export)"
    # z3 5.x prints applications of recursive functions as `(_ f 0)`: cvc5 rejects that form and z3 4.8.12 reads it as another,
    # undefined symbol (a spurious `sat`). Normalised to plain `f`. z3 4.8.12 also answers `sat` on unsatisfiable queries whose
    # refutation needs an unfolding of a recursive definition (observed: fitness_sum(k + 1) with the definition in scope; the model it
    # prints violates the definition), so queries with recursive definitions are re-checked by cvc5 only.
    rec_names = set(re.findall(r"define-funs-rec\s*\(\s*\(\s*([^\s()]+)", txt)) | set(re.findall(r"define-fun-rec\s+([^\s()]+)", txt))
    for n in rec_names:
        txt = txt.replace(f"(_ {n} 0)", n)
    with tempfile.NamedTemporaryFile("w", suffix=".smt2", delete=False) as f:
        f.write(txt)
        path = f.name
    with tempfile.NamedTemporaryFile("w", suffix=".smt2", delete=False) as f:
        f.write("(set-logic ALL)\n" + txt)
        path5 = f.name
    try:
        backends = [("cvc5", ["/usr/bin/cvc5", "--strings-exp", f"--tlimit={timeout_ms}", path5])]
        if not rec_names:
            backends.append(("z3-4.8.12", ["/usr/bin/z3", f"-T:{max(1, timeout_ms // 1000)}", path]))
        for nm, cmd in backends:
            try:
                out = subprocess.run(cmd, capture_output=True, text=True, timeout=timeout_ms / 1000 + 5)
                first = out.stdout.strip().splitlines()[0] if out.stdout.strip() else "unknown"
            except Exception:
                first = "unknown"
            if first in ("sat", "unsat"):
                return f"{first} ({nm})"
        return "unknown"
    finally:
        os.unlink(path)
        os.unlink(path5)


def run_unit(prop: str, name: str, func, tier: str, root):
    u = Unit(prop, name, tier, root)
    t0 = time.time()
    crash = None
    try:
        func(u)
    except FrontError as e:
        u.undecide(f"{name}.located", "", f"target not found in the working tree: {e}")
    except Unsupported as e:
        u.undecide(f"{name}.supported", "", f"unsupported: {e}")
    except Exception:
        crash = traceback.format_exc()
    return {"unit": name, "results": u.results, "functions": u.functions, "assumptions": sorted(u.assumptions),
            "lib_used": sorted(u.lib_used), "inlined": sorted(u.inlined), "dropped": sorted(u.dropped),
            "paths": u.paths_explored, "solver_s": round(u.solver_s, 3), "wall_s": round(time.time() - t0, 3), "crash": crash}
