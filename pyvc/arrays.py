"""numpy subset as pointwise array terms (trusted library contracts, see DESIGN 3.2 / A.4).

An array is a heap cell HArr(shape, dtype, elem) where elem maps an index tuple (z3 Int terms) to a
scalar Val. Elementwise code therefore yields obligations at one arbitrary symbolic index, with no
bound on the array size. Reductions are abstract (fresh result + the facts stated per function).
"""
from __future__ import annotations

import ast

import z3

from .ops import *  # noqa: F401,F403
from .state import Unsupported, PyExc
from .values import *  # noqa: F401,F403

FLOAT_DT = ("float16", "float32", "float64")
UINT_DT = ("uint8", "uint16", "uint32", "uint64")
INT_DT = ("int8", "int16", "int32", "int64")


def dt_code(name: str) -> int:
    return DTYPES.index(name)


def dtype_of_lib(v):
    """VLib numpy.float64 / builtins.float / VStr 'float64' / VDtype -> VDtype | None."""
    if isinstance(v, VDtype):
        return v
    if isinstance(v, VLib):
        n = v.name.split(".")[-1]
        n = {"float": "float64", "int": "int64", "bool": "bool", "float_": "float64", "int_": "int64", "double": "float64",
             "single": "float32", "half": "float16", "uint": "uint64", "complex": "complex128", "str": "str", "object": "object"}.get(n, n)
        if n in DTYPES:
            return VDtype(n)
    if isinstance(v, VStr) and is_conc(v.v):
        n = {"float": "float64", "int": "int64"}.get(v.v, v.v)
        if n in DTYPES:
            return VDtype(n)
    return None


def dtype_eq(ex, a, b):
    da, db = dtype_of_lib(a), dtype_of_lib(b)
    if da is None or db is None:
        return False
    if is_conc(da.v) and is_conc(db.v):
        return da.v == db.v
    ca = z3.IntVal(dt_code(da.v)) if is_conc(da.v) else da.v
    cb = z3.IntVal(dt_code(db.v)) if is_conc(db.v) else db.v
    return ca == cb


def dtype_in(ex, d: VDtype, names):
    if is_conc(d.v):
        return d.v in names
    return z_or(*[d.v == dt_code(n) for n in names])


def dtype_attr(ex, d: VDtype, name):
    if name == "kind":
        if is_conc(d.v):
            k = "f" if d.v in FLOAT_DT else "u" if d.v in UINT_DT else "i" if d.v in INT_DT else "b" if d.v == "bool" else "c" if d.v.startswith("complex") else "O"
            return VStr(k)
        raise Unsupported("kind of symbolic dtype")
    if name == "type":
        return d
    if name == "name" and is_conc(d.v):
        return VStr(d.v)
    if name == "itemsize" and is_conc(d.v):
        import numpy
        return VInt(int("".join(c for c in d.v if c.isdigit()) or 8) // 8)
    raise Unsupported(f"dtype.{name}")


def elem_kind(d: VDtype) -> str:
    if is_conc(d.v):
        if d.v in FLOAT_DT:
            return "float"
        if d.v in UINT_DT or d.v in INT_DT:
            return "int"
        if d.v == "bool":
            return "bool"
    return "float"


def new_array(ex, shape, dtype, elem) -> VRef:
    return ex.st.alloc(HArr(shape, dtype, elem))


def sym_array(ex, name, shape, dtype, kind=None, mode=None):
    """Fresh symbolic array: elements are an uninterpreted function of the index."""
    kind = kind or elem_kind(dtype)
    nd = len(shape)
    sort = {"float": z3.RealSort(), "int": z3.IntSort(), "bool": z3.BoolSort()}[kind]
    if kind == "float" and (mode or ex.cfg.float_mode) == "fp":
        sort = F64
    f = z3.Function(ex.st.fresh_name(name), *([z3.IntSort()] * nd), sort)
    wrap = {"float": VFloat, "int": VInt, "bool": VBool}[kind]
    return new_array(ex, shape, dtype, lambda idx, f=f, wrap=wrap: wrap(f(*[z_int(i) for i in idx])))


def cell(ex, v) -> HArr:
    return ex.st.cell(v)


def shape_eq(s1, s2):
    if len(s1) != len(s2):
        return False
    return z_and(*[(a == b) if (is_conc(a) and is_conc(b)) else (z_int(a) == z_int(b)) for a, b in zip(s1, s2)])


def broadcast(ex, a, b):
    """Shapes of two array operands; returns (shape, fa, fb) where fa/fb map result index -> operand elem."""
    ca = cell(ex, a) if ex.is_arr(a) else None
    cb = cell(ex, b) if ex.is_arr(b) else None
    if ca is None:
        return cb.shape, (lambda idx: a), cb.elem
    if cb is None:
        return ca.shape, ca.elem, (lambda idx: b)
    # numpy broadcasting (library contract): shapes are aligned on the right; per axis the sizes are equal, or one of them
    # is 1 (that operand is repeated), else ValueError. A missing leading axis behaves like size 1.
    ra, rb = len(ca.shape), len(cb.shape)
    r = max(ra, rb)
    sa = [None] * (r - ra) + list(ca.shape)
    sb = [None] * (r - rb) + list(cb.shape)
    out, ma, mb = [], [], []
    for k in range(r):
        da, db = sa[k], sb[k]
        if da is None:
            out.append(db); ma.append("skip"); mb.append("idx")
        elif db is None:
            out.append(da); ma.append("idx"); mb.append("skip")
        else:
            eq = (da == db) if (is_conc(da) and is_conc(db)) else (z_int(da) == z_int(db))
            if (eq is True) or (not isinstance(eq, bool) and ex.st.branch(eq)):
                out.append(da); ma.append("idx"); mb.append("idx")
                continue
            one_a = (da == 1) if is_conc(da) else (z_int(da) == 1)
            if (one_a is True) or (not isinstance(one_a, bool) and ex.st.branch(one_a)):
                out.append(db); ma.append("zero"); mb.append("idx")
                continue
            one_b = (db == 1) if is_conc(db) else (z_int(db) == 1)
            if (one_b is True) or (not isinstance(one_b, bool) and ex.st.branch(one_b)):
                out.append(da); ma.append("idx"); mb.append("zero")
                continue
            ex.throw("ValueError", "operands could not be broadcast together")

    def pick(c, modes):
        el = c.elem          # the operand's content NOW (numpy computes eagerly; the cell may be overwritten later)
        if all(m == "idx" for m in modes):
            return el

        def f(idx, el=el, modes=modes):
            return el(tuple((z3.IntVal(0) if m == "zero" else idx[k]) for k, m in enumerate(modes) if m != "skip"))
        return f
    return tuple(out), pick(ca, ma), pick(cb, mb)


def result_dtype(ex, a, b, op=None):
    def dt(v):
        if ex.is_arr(v):
            return cell(ex, v).dtype
        return None
    da, db = dt(a), dt(b)
    if isinstance(op, ast.Div):
        return VDtype("float64") if not (da and is_conc(da.v) and da.v in ("float16", "float32") and (db is None or db.v == da.v)) else da
    if da is not None and db is not None:
        if is_conc(da.v) and is_conc(db.v):
            if da.v == db.v:
                return da
            import numpy as np  # type promotion table is numpy's own
            try:
                return VDtype(str(np.result_type(np.dtype(da.v), np.dtype(db.v))))
            except Exception:
                return VDtype("float64")
        # at least one dtype is symbolic: equal dtypes give that dtype, otherwise numpy promotes to SOME dtype of its table
        if not is_conc(da.v) and not is_conc(db.v) and z3.eq(da.v, db.v):
            return da
        t = ex.st.fresh_int("promoted_dtype")
        ex.st.assume(z3.And(t >= 0, t < len(DTYPES)))
        ca_, cb_ = (DTYPES.index(da.v) if is_conc(da.v) else da.v), (DTYPES.index(db.v) if is_conc(db.v) else db.v)
        ex.st.assume(z3.Implies(z_int(ca_) == z_int(cb_), t == z_int(ca_)))
        return VDtype(t)
    d = da or db
    other = b if da is not None else a
    if is_conc(d.v) and elem_kind(d) == "int" and isinstance(other, VFloat):
        return VDtype("float64")
    if is_conc(d.v) and d.v == "bool" and isinstance(other, (VInt, VFloat)):
        return VDtype("float64" if isinstance(other, VFloat) else "int64")
    return d


def arr_binop(ex, op, a, b):
    shape, fa, fb = broadcast(ex, a, b)
    dtype = result_dtype(ex, a, b, op)
    cfg = ex.cfg

    def elem(idx):
        x, y = fa(idx), fb(idx)
        if isinstance(op, (ast.BitAnd, ast.BitOr)) and isinstance(x, VBool) and isinstance(y, VBool):
            return VBool(z_and(x.v, y.v) if isinstance(op, ast.BitAnd) else z_or(x.v, y.v))
        return arith(cfg, op, x, y)
    return new_array(ex, shape, dtype, elem)


def arr_inplace(ex, op, cur: VRef, val):
    """a <op>= v. Library contract: numpy in-place ufuncs never change a's shape or dtype; they either
    complete or raise (ValueError: not broadcastable / TypeError: casting rule 'same_kind', unsupported
    operand) leaving `a` unchanged. Elementwise meaning is exact when v is a scalar or an array of a's
    shape; any other operand (broadcast, list, foreign array type) is over-approximated by
    'raise, or complete with unspecified element values'."""
    c = cell(ex, cur)
    exact = False
    if is_num(val):
        exact = True
        if isinstance(val, VFloat) and is_conc(c.dtype.v) and elem_kind(c.dtype) == "int":
            ex.throw("TypeError", "Cannot cast ufunc output with casting rule 'same_kind'")
    elif ex.is_arr(val):
        cv = cell(ex, val)
        if len(cv.shape) == len(c.shape) and ex.st.branch(shape_eq(c.shape, cv.shape)):
            exact = True
            if is_conc(c.dtype.v) and is_conc(cv.dtype.v) and elem_kind(c.dtype) == "int" and elem_kind(cv.dtype) == "float":
                ex.throw("TypeError", "Cannot cast ufunc output with casting rule 'same_kind'")
    if exact:
        if not is_conc(c.dtype.v) or (ex.is_arr(val) and not is_conc(cell(ex, val).dtype.v)):
            # a floating-point destination accepts every real operand under 'same_kind'; otherwise the outcome depends on types
            # that are not known here: may raise
            dest_float = dtype_in(ex, c.dtype, ["float16", "float32", "float64"])
            dest_float = dest_float if not isinstance(dest_float, bool) else z3.BoolVal(dest_float)
            if ex.is_arr(val):
                REAL = ["bool", "float16", "float32", "float64"] + list(UINT_DT) + list(INT_DT)
                op_real = dtype_in(ex, cell(ex, val).dtype, REAL)
                dest_float = z3.And(dest_float, op_real if not isinstance(op_real, bool) else z3.BoolVal(op_real))
            if ex.st.branch(z3.Not(dest_float)) and ex.st.choose([True, True]) == 1:
                ex.throw("TypeError", "Cannot cast ufunc output with casting rule 'same_kind'")
        _, fa, fb = broadcast(ex, cur, val)
        old = c.elem
        cfg = ex.cfg
        write_elem(ex, cur, lambda idx, fa=old, fb=fb: arith(cfg, op, fa(idx), fb(idx)))
        return cur
    k = ex.st.choose([True, True, True])
    if k == 1:
        ex.throw("ValueError", "operands could not be broadcast together")
    if k == 2:
        ex.throw("TypeError", "unsupported operand / casting for in-place operation")
    probe = c.elem(tuple(z3.IntVal(0) for _ in c.shape))
    kind = "float" if isinstance(probe, VFloat) else "int" if isinstance(probe, VInt) else "bool"
    sort = {"float": z3.RealSort(), "int": z3.IntSort(), "bool": z3.BoolSort()}[kind]
    f = z3.Function(ex.st.fresh_name("inplace"), *([z3.IntSort()] * len(c.shape)), sort)
    wrap = {"float": VFloat, "int": VInt, "bool": VBool}[kind]
    write_elem(ex, cur, lambda idx: wrap(f(*[z_int(i) for i in idx]) if idx else f()))
    return cur


def arr_unary(ex, what, v):
    c = cell(ex, v)
    if what == "neg":
        return new_array(ex, c.shape, c.dtype, lambda idx: neg(ex.cfg, c.elem(idx)))
    if what == "not":
        return new_array(ex, c.shape, c.dtype, lambda idx: VBool(z_not(c.elem(idx).v)))
    raise Unsupported(what)


def arr_compare(ex, op, a, b):
    if op in ("eq", "ne") and (isinstance(a, VNone) or isinstance(b, VNone)):
        return op == "ne"
    shape, fa, fb = broadcast(ex, a, b)
    return new_array(ex, shape, VDtype("bool"), lambda idx: VBool(num_compare(op, fa(idx), fb(idx))))


def fresh_index(ex, shape, base="ix"):
    idx = tuple(ex.st.fresh_int(base) for _ in shape)
    for i, s in zip(idx, shape):
        ex.st.assume(z3.And(i >= 0, i < z_int(s)))
    return idx


def expand_ellipsis(idxs, ndim):
    for k, i in enumerate(idxs):
        if isinstance(i, VLib) and i.name == "builtins.Ellipsis":
            fill = ndim - (len(idxs) - 1)
            return idxs[:k] + [VSlice(NONE, NONE, NONE)] * max(fill, 0) + idxs[k + 1:]
    return idxs


def arr_getitem(ex, obj, idx):
    c = cell(ex, obj)
    if isinstance(idx, VTuple) and len(idx.items) == 1 and ex.is_arr(idx.items[0]):
        idx = idx.items[0]                    # a[(index_array,)] == a[index_array]
    if isinstance(idx, VTuple) and len(idx.items) == len(c.shape) and len(idx.items) >= 2 and all(ex.is_arr(i) for i in idx.items):
        ics = [cell(ex, i) for i in idx.items]
        if all(is_conc(ic.dtype.v) and ic.dtype.v.startswith(("int", "uint")) and len(ic.shape) == 1 for ic in ics):
            # a[rows_idx, cols_idx, ...] with one 1-D integer array per axis (equal lengths: numpy broadcasts, here they come from one
            # np.nonzero): a gather, result[m] = a[rows_idx[m], cols_idx[m], ...]  (a copy)
            iels, ael, dims = [ic.elem for ic in ics], c.elem, [z_int(d) for d in c.shape]

            def gather_nd(ix, iels=iels, ael=ael, dims=dims):
                ts = [z_int(int_of(ie((ix[0],)))) for ie in iels]
                return ael(tuple(z3.If(t >= 0, t, t + n) for t, n in zip(ts, dims)))
            return new_array(ex, (ics[0].shape[0],), c.dtype, gather_nd)
    if ex.is_arr(idx):
        ic = cell(ex, idx)
        if is_conc(ic.dtype.v) and ic.dtype.v.startswith(("int", "uint")) and len(ic.shape) == 1 and len(c.shape) == 1:
            # integer-array ("fancy") indexing of a 1-D array: a gather, result[m] = a[idx[m]] (a copy, not a view)
            iel, ael, n = ic.elem, c.elem, z_int(c.shape[0])

            def gather(ix, iel=iel, ael=ael, n=n):
                t = z_int(int_of(iel((ix[0],))))
                return ael((z3.If(t >= 0, t, t + n),))
            return new_array(ex, (ic.shape[0],), c.dtype, gather)
        raise Unsupported("boolean-mask read")
    idxs = expand_ellipsis(list(idx.items) if isinstance(idx, VTuple) else [idx], len(c.shape))
    if len(idxs) > len(c.shape):
        ex.throw("IndexError", "too many indices for array")
    # pad with full slices
    idxs = idxs + [VSlice(NONE, NONE, NONE)] * (len(c.shape) - len(idxs))
    maps, new_shape = [], []
    for ax, (i, n) in enumerate(zip(idxs, c.shape)):
        n = z_int(n)
        if isinstance(i, VSlice):
            if not isinstance(i.step, VNone):
                raise Unsupported("stepped array slice")
            lo = z3.IntVal(0) if isinstance(i.lo, VNone) else z_int(int_of(i.lo))
            hi = n if isinstance(i.hi, VNone) else z_int(int_of(i.hi))
            norm = lambda t, n=n: z3.If(t < 0, z3.If(t + n < 0, 0, t + n), z3.If(t > n, n, t))
            lo, hi = z3.simplify(norm(lo)), z3.simplify(norm(hi))
            new_shape.append(z3.simplify(z3.If(hi > lo, hi - lo, 0)))
            maps.append(("slice", lo))
        else:
            t = z_int(int_of(i, "array index"))
            checked = getattr(ex, "unchecked_indexing", None)
            if checked is not None:
                checked(ex, t, n, ax)
            elif not ex.st.branch(z3.And(t >= -n, t < n)):
                ex.throw("IndexError", "index out of bounds")
            maps.append(("int", z3.simplify(z3.If(t >= 0, t, t + n))))
    if not new_shape:
        return c.elem(tuple(m[1] for m in maps))

    def elem(ix, maps=maps, base=c):
        full, j = [], 0
        for kind, t in maps:
            if kind == "int":
                full.append(t)
            else:
                full.append(t + z_int(ix[j]))
                j += 1
        return base.elem(tuple(full))
    out = new_array(ex, tuple(new_shape), c.dtype, elem)
    # numpy basic indexing returns a view: writes through the view reach the base array
    ex.st.cell(out).tag = ("view", obj.addr, maps)
    ex.st.cell(out)._heap = ex.st.heap
    return out


def _view_elem(ex, addr, maps, ix):
    base = ex.st.heap[addr]
    full, j = [], 0
    for kind, t in maps:
        if kind == "int":
            full.append(t)
        else:
            full.append(t + z_int(ix[j]))
            j += 1
    return base.elem(tuple(full))


def _in_view(maps, shape, full_idx):
    """Condition that base index `full_idx` lies inside the view, and the view index."""
    conds, vix, j = [], [], 0
    for (kind, t), i in zip(maps, full_idx):
        if kind == "int":
            conds.append(z_int(i) == t)
        else:
            conds.append(z3.And(z_int(i) >= t, z_int(i) < t + z_int(shape[j])))
            vix.append(z_int(i) - t)
            j += 1
    return z_and(*conds), tuple(vix)


def write_elem(ex, ref: VRef, new_elem):
    """Replace the element function of array `ref`; writes through views reach the base."""
    c = cell(ex, ref)
    if c.tag and c.tag[0] == "view":
        _, addr, maps = c.tag
        base = ex.st.heap[addr]
        old = base.elem
        shape = c.shape

        def belem(full, old=old):
            cond, vix = _in_view(maps, shape, full)
            o = old(full)
            if cond is False:
                return o
            n = new_elem(vix)
            return ite_val(cond, n, o)
        write_elem(ex, VRef(addr), belem)
    else:
        c.elem = new_elem


def ite_val(c, a, b):
    if isinstance(c, bool):
        return a if c else b
    if isinstance(a, VBool) and isinstance(b, VBool):
        return VBool(z3.If(c, z_bool(a.v), z_bool(b.v)))
    if isinstance(a, (VInt, VBool)) and isinstance(b, (VInt, VBool)):
        return VInt(z3.If(c, z_int(as_int_term(a)), z_int(as_int_term(b))))
    if is_num(a) and is_num(b):
        if any_fp(a, b):
            return VFloat(z3.If(c, to_fp(a), to_fp(b)))
        return VFloat(z3.If(c, to_real(a), to_real(b)))
    raise Unsupported(f"ite of {a!r} / {b!r}")


def cast_elem(ex, v, dtype: VDtype):
    """Value stored into an array of `dtype` (float arrays hold floats, int arrays ints)."""
    k = elem_kind(dtype)
    if k == "float" and isinstance(v, (VInt, VBool)):
        t = as_int_term(v)
        return VFloat(float(t)) if is_conc(t) else VFloat(z3.ToReal(t))
    if k == "int" and isinstance(v, VFloat):
        if is_conc(v.v):
            return VInt(int(v.v))
        return VInt(z3.ToInt(trunc_real(to_real(v))))
    return v


def arr_setitem(ex, obj, idx, val):
    val = ex.resolve(val)          # an optional value is decided on this path before it is stored
    c = cell(ex, obj)
    old = c.elem if not (c.tag and c.tag[0] == "view") else (lambda ix: _view_elem(ex, c.tag[1], c.tag[2], ix))
    if ex.is_arr(idx):          # a[mask] = v
        m = cell(ex, idx)
        if ex.is_arr(val):
            raise Unsupported("mask assignment of an array value")
        v = cast_elem(ex, val, c.dtype)
        write_elem(ex, obj, lambda ix, old=old, m=m: ite_val(z_bool(m.elem(ix).v), v, old(ix)))
        return
    idxs = expand_ellipsis(list(idx.items) if isinstance(idx, VTuple) else [idx], len(c.shape))
    if len(idxs) > len(c.shape):
        ex.throw("IndexError", "too many indices for array")
    idxs = idxs + [VSlice(NONE, NONE, NONE)] * (len(c.shape) - len(idxs))
    conds = []
    pos = []
    for ax, (i, n) in enumerate(zip(idxs, c.shape)):
        n = z_int(n)
        if isinstance(i, VSlice):
            if not isinstance(i.step, VNone):
                raise Unsupported("stepped slice store")
            lo = z3.IntVal(0) if isinstance(i.lo, VNone) else z_int(int_of(i.lo))
            hi = n if isinstance(i.hi, VNone) else z_int(int_of(i.hi))
            norm = lambda t, n=n: z3.If(t < 0, z3.If(t + n < 0, 0, t + n), z3.If(t > n, n, t))
            pos.append(("slice", z3.simplify(norm(lo)), z3.simplify(norm(hi))))
        else:
            t = z_int(int_of(i, "array index"))
            checked = getattr(ex, "unchecked_indexing", None)
            if checked is not None:
                # numba without bounds checking: record the memory-safety obligation instead of raising
                checked(ex, t, n, ax)
            elif not ex.st.branch(z3.And(t >= -n, t < n)):
                ex.throw("IndexError", "index out of bounds")
            pos.append(("int", z3.If(t >= 0, t, t + n)))
    if ex.is_arr(val):
        cv = cell(ex, val)
        sub_shape = [z3.simplify(z3.If(p[2] > p[1], p[2] - p[1], 0)) for p in pos if p[0] == "slice"]
        if len(cv.shape) != len(sub_shape):
            raise Unsupported("slice store with broadcasting")
        if not ex.st.branch(shape_eq(tuple(sub_shape), cv.shape)):
            ex.throw("ValueError", "could not broadcast input array into shape")

    velem = cell(ex, val).elem if ex.is_arr(val) else None      # snapshot of the right-hand side NOW

    def elem(ix, old=old):
        cs, vix = [], []
        for p, i in zip(pos, ix):
            if p[0] == "int":
                cs.append(z_int(i) == p[1])
            else:
                cs.append(z3.And(z_int(i) >= p[1], z_int(i) < p[2]))
                vix.append(z_int(i) - p[1])
        cond = z_and(*cs)
        nv = cast_elem(ex, velem(tuple(vix)) if velem is not None else val, c.dtype)
        return ite_val(cond, nv, old(ix))
    write_elem(ex, obj, elem)


def arr_mask_inplace(ex, op, obj, mask, val):
    """a[mask] <op>= v  for a boolean mask of a's shape: elementwise  a[i] = mask[i] ? a[i] <op> v[i] : a[i]."""
    c, m = cell(ex, obj), cell(ex, mask)
    if not ex.st.branch(shape_eq(c.shape, m.shape)):
        ex.throw("IndexError", "boolean index did not match indexed array")
    if ex.is_arr(val):
        raise Unsupported("mask in-place with an array operand")
    old = c.elem
    cfg = ex.cfg
    write_elem(ex, obj, lambda ix, old=old, m=m: ite_val(z_bool(m.elem(ix).v), cast_elem(ex, arith(cfg, op, old(ix), val), c.dtype), old(ix)))
    return None


def arr_iterate(ex, v):
    c = cell(ex, v)
    n = c.shape[0]
    if not is_conc(n):
        raise Unsupported("iteration over an array with symbolic first axis needs a loop invariant")
    return [arr_getitem(ex, v, VInt(i)) for i in range(n)]


def arr_attr(ex, obj, c: HArr, name):
    if name == "shape":
        return VTuple([VInt(s) for s in c.shape])
    if name == "dtype":
        return c.dtype
    if name == "ndim":
        return VInt(len(c.shape))
    if name == "size":
        t = 1
        for s in c.shape:
            t = t * s
        return VInt(t)
    if name == "T" and len(c.shape) == 2:
        return new_array(ex, (c.shape[1], c.shape[0]), c.dtype, lambda ix: c.elem((ix[1], ix[0])))
    if name == "flags":
        return VOpaque("ndflags", None, {"label": "ndarray.flags", "of": obj})
    return VLib("ndarray." + name, obj)


# ---------------------------------------------------------------------------------------------
# numpy functions
# ---------------------------------------------------------------------------------------------
NP = {}


def npfn(*names):
    def deco(f):
        for n in names:
            NP[n] = f
        return f
    return deco


def call(ex, f: VLib, args, kwargs, fr):
    h = NP.get(f.name)
    if h is None:
        return NotImplemented
    if f.self_val is not None:
        return h(ex, [f.self_val] + list(args), kwargs, fr)
    return h(ex, args, kwargs, fr)


def shape_arg(ex, v, fr):
    if isinstance(v, (VInt,)):
        return (v.v,)
    return tuple(int_of(x) for x in ex.iterate(v, fr))


def const_array(ex, shape, dtype, value):
    v = cast_elem(ex, value, dtype)
    return new_array(ex, shape, dtype, lambda ix: v)


@npfn("numpy.zeros", "numpy.ones", "numpy.empty")
def _zeros(ex, args, kwargs, fr):
    which = None
    raise Unsupported("use zeros_/ones_ handlers")


def _mk_fill(value):
    def h(ex, args, kwargs, fr):
        shape = shape_arg(ex, args[0] if args else kwargs["shape"], fr)
        dt = kwargs.get("dtype", args[1] if len(args) > 1 else None)
        dtype = dtype_of_lib(dt) if dt is not None else VDtype("float64")
        if dtype is None:
            raise Unsupported("dtype argument")
        return const_array(ex, shape, dtype, VInt(value))
    return h


NP["numpy.zeros"] = _mk_fill(0)
NP["numpy.ones"] = _mk_fill(1)
NP["numpy.empty"] = _mk_fill(0)


@npfn("numpy.full")
def _full(ex, args, kwargs, fr):
    shape = shape_arg(ex, args[0] if args else kwargs["shape"], fr)
    fill = args[1] if len(args) > 1 else kwargs["fill_value"]
    dt = kwargs.get("dtype")
    dtype = dtype_of_lib(dt) if dt is not None else VDtype("float64" if isinstance(fill, VFloat) else "int64")
    return const_array(ex, shape, dtype, fill)


@npfn("numpy.zeros_like", "numpy.ones_like")
def _zeros_like(ex, args, kwargs, fr):
    c = cell(ex, args[0])
    dt = kwargs.get("dtype")
    dtype = dtype_of_lib(dt) if dt is not None else c.dtype
    return const_array(ex, c.shape, dtype, VInt(0))


NP["numpy.ones_like"] = lambda ex, args, kwargs, fr: const_array(
    ex, cell(ex, args[0]).shape, dtype_of_lib(kwargs["dtype"]) if "dtype" in kwargs else cell(ex, args[0]).dtype, VInt(1))


def astype(ex, v: VRef, dtype: VDtype):
    c = cell(ex, v)
    sk, dk = elem_kind(c.dtype), elem_kind(dtype)

    def elem(ix, c=c):
        x = c.elem(ix)
        if dk == "int" and isinstance(x, VFloat):
            return cast_elem(ex, x, dtype)
        if dk == "float" and isinstance(x, (VInt, VBool)):
            return cast_elem(ex, x, dtype)
        return x
    return new_array(ex, c.shape, dtype, elem)


@npfn("ndarray.fill")
def _fill(ex, args, kwargs, fr):
    """a.fill(v): IN-PLACE write of every element (same cell, same shape and dtype); returns None."""
    v = args[1] if len(args) > 1 else kwargs["value"]
    if not is_num(v):
        raise Unsupported("ndarray.fill with a non-scalar")
    c = cell(ex, args[0])
    cv = cast_elem(ex, v, c.dtype)
    write_elem(ex, args[0], lambda idx, cv=cv: cv)
    return NONE


@npfn("ndarray.astype")
def _astype(ex, args, kwargs, fr):
    dt = dtype_of_lib(args[1] if len(args) > 1 else kwargs["dtype"])
    if dt is None:
        raise Unsupported("astype dtype")
    return astype(ex, args[0], dt)


@npfn("ndarray.copy", "numpy.copy")
def _copy(ex, args, kwargs, fr):
    c = cell(ex, args[0])
    old = c.elem if not (c.tag and c.tag[0] == "view") else None
    if old is None:
        # snapshot of a view: freeze against the base's current element function
        base = ex.st.heap[c.tag[1]]
        bel, maps = base.elem, c.tag[2]

        def old(ix, bel=bel, maps=maps):
            full, j = [], 0
            for kind, t in maps:
                if kind == "int":
                    full.append(t)
                else:
                    full.append(t + z_int(ix[j]))
                    j += 1
            return bel(tuple(full))
    return new_array(ex, c.shape, c.dtype, old)


@npfn("numpy.asarray")
def _asarray(ex, args, kwargs, fr):
    """np.asarray(a[, dtype]): the SAME array object when a is already an ndarray of the requested type (no copy) — a caller that keeps
    and later changes `a` changes the result too; otherwise as np.array."""
    v = args[0]
    dt = kwargs.get("dtype", args[1] if len(args) > 1 else None)
    dtype = dtype_of_lib(dt) if dt is not None and not isinstance(dt, VNone) else None
    if ex.is_arr(v):
        if dtype is None:
            return v
        same = dtype_eq(ex, dtype, cell(ex, v).dtype)
        if same is True or (same is not False and ex.st.branch(same)):
            return v
        return astype(ex, v, dtype)
    return _array(ex, args, kwargs, fr)


@npfn("numpy.ascontiguousarray")
def _ascontiguousarray(ex, args, kwargs, fr):
    """np.ascontiguousarray(a[, dtype]): the arrays of the model are C-contiguous (no strided views), so this is np.asarray — in
    particular the SAME object for an array of the requested type."""
    return _asarray(ex, args, kwargs, fr)


@npfn("numpy.array")
def _array(ex, args, kwargs, fr):
    v = args[0]
    dt = kwargs.get("dtype", args[1] if len(args) > 1 else None)
    dtype = dtype_of_lib(dt) if dt is not None and not isinstance(dt, VNone) else None
    if ex.is_arr(v):
        if dtype is None or dtype_eq(ex, dtype, cell(ex, v).dtype) is True:
            return _copy(ex, [v], {}, fr) if True else v
        return astype(ex, v, dtype)
    if is_num(v):
        d = dtype or VDtype("float64" if isinstance(v, VFloat) else "bool" if isinstance(v, VBool) else "int64")
        return new_array(ex, (), d, lambda ix: cast_elem(ex, v, d))
    if isinstance(v, VRange) and v.step is None:
        lo, hi = z_int(int_of(v.lo)), z_int(int_of(v.hi))
        n = z3.simplify(z3.If(hi > lo, hi - lo, 0))
        out = new_array(ex, (n,), dtype or VDtype("int64"), lambda ix, lo=lo: VInt(lo + z_int(ix[0])))
        ex.st.cell(out).tag = ("range", lo, z3.simplify(z3.If(hi > lo, hi, lo)))
        return out
    if isinstance(v, VSeq):
        # a Python sequence of symbolic length whose elements are numbers: a 1-D array of that length
        probe = v.get(z3.Int("np_array_probe"))
        if is_num(probe):
            d = dtype or VDtype("float64" if isinstance(probe, VFloat) else "bool" if isinstance(probe, VBool) else "int64")
            return new_array(ex, (v.n,), d, lambda ix, v=v, d=d: cast_elem(ex, v.get(z_int(ix[0])), d))
    items = ex.try_list(v)
    if items is not None and items and all(isinstance(x, VStr) for x in items):
        return new_array(ex, (len(items),), VDtype("str"), lambda ix, items=items: _select_any(items, ix[0]))
    if items is not None and all(is_num(x) for x in items):
        d = dtype or VDtype("float64" if any(isinstance(x, VFloat) for x in items) else "int64")

        def elem(ix):
            out = cast_elem(ex, items[-1], d)
            for j in range(len(items) - 2, -1, -1):
                out = ite_val(z_int(ix[0]) == j, cast_elem(ex, items[j], d), out)
            return out
        return new_array(ex, (len(items),), d, elem)
    if items is not None and items and all(ex.try_list(x) is not None for x in items):
        rows_ = [ex.try_list(x) for x in items]
        if all(len(r) == len(rows_[0]) and all(is_num(y) for y in r) for r in rows_):
            d = dtype or VDtype("float64" if any(isinstance(y, VFloat) for r in rows_ for y in r) else "int64")

            def elem2(ix, rows_=rows_, d=d):
                def row(r):
                    out = cast_elem(ex, r[-1], d)
                    for j in range(len(r) - 2, -1, -1):
                        out = ite_val(z_int(ix[1]) == j, cast_elem(ex, r[j], d), out)
                    return out
                out = row(rows_[-1])
                for i in range(len(rows_) - 2, -1, -1):
                    out = ite_val(z_int(ix[0]) == i, row(rows_[i]), out)
                return out
            return new_array(ex, (len(rows_), len(rows_[0])), d, elem2)
    if items is not None and items and all(ex.is_arr(x) for x in items):
        # np.array([a0, a1, ...]) of arrays of one shape: stacked along a new leading axis (library contract; arrays of
        # different shapes raise ValueError in numpy >= 1.24)
        cells = [cell(ex, x) for x in items]
        if all(len(c.shape) == len(cells[0].shape) for c in cells):
            for c in cells[1:]:
                if not ex.st.branch(shape_eq(cells[0].shape, c.shape)):
                    ex.throw("ValueError", "setting an array element with a sequence. The requested array has an inhomogeneous shape")
            d = dtype or cells[0].dtype
            els = [c.elem for c in cells]

            def stacked(ix, els=els, d=d):
                rest = tuple(ix[1:])
                out = cast_elem(ex, els[-1](rest), d) if dtype is not None else els[-1](rest)
                for j in range(len(els) - 2, -1, -1):
                    xj = cast_elem(ex, els[j](rest), d) if dtype is not None else els[j](rest)
                    out = ite_val(z_int(ix[0]) == j, xj, out)
                return out
            return new_array(ex, (len(items),) + tuple(cells[0].shape), d, stacked)
    h = ex.cfg.lib_overrides.get(("np.array_of",))
    if h is not None:
        return h(ex, v, dtype, fr)
    raise Unsupported(f"np.array({v!r})")


def ufunc1(ex, name, v):
    def f(x):
        if name == "abs":
            if is_conc(x.v):
                return type(x)(abs(x.v))
            if isinstance(x, VFloat) and is_fp(x.v):
                return VFloat(z3.fpAbs(x.v))
            t = x.v if isinstance(x, VFloat) else as_int_term(x)
            return (VFloat if isinstance(x, VFloat) else VInt)(z3.If(t >= 0, t, -t))
        if name == "trunc":
            if isinstance(x, (VInt, VBool)):
                return x
            if is_conc(x.v):
                import math
                return VFloat(float(math.trunc(x.v)))
            if is_fp(x.v):
                return VFloat(z3.fpRoundToIntegral(z3.RTZ(), x.v))
            return VFloat(trunc_real(x.v))
        if name == "floor":
            if isinstance(x, (VInt, VBool)):
                return x
            if is_conc(x.v):
                import math
                return VFloat(float(math.floor(x.v)))
            if is_fp(x.v):
                return VFloat(z3.fpRoundToIntegral(z3.RTN(), x.v))
            return VFloat(z3.ToReal(z3.ToInt(x.v)))
        if name == "ceil":
            if is_conc(x.v):
                import math
                return VFloat(float(math.ceil(x.v)))
            return VFloat(-z3.ToReal(z3.ToInt(-to_real(x))))
        if name == "rint":
            # round to the nearest integer, ties to the even one (numpy / IEEE)
            if isinstance(x, (VInt, VBool)):
                return x
            if is_conc(x.v):
                return VFloat(float(round(x.v)))
            if is_fp(x.v):
                return VFloat(z3.fpRoundToIntegral(z3.RNE(), x.v))
            fl = z3.ToInt(x.v)
            frac = x.v - z3.ToReal(fl)
            half = z3.RealVal("1/2")
            return VFloat(z3.ToReal(z3.If(frac < half, fl, z3.If(frac > half, fl + 1, z3.If(fl % 2 == 0, fl, fl + 1)))))
        if name == "square":
            return arith(ex.cfg, ast.Mult(), x, x)
        if name == "exp":
            return wrap_float(ex.cfg, uexp(to_real(x)))
        if name == "sqrt":
            return wrap_float(ex.cfg, usqrt(to_real(x)))
        if name == "log10":
            return wrap_float(ex.cfg, log10(to_real(x)))
        if name == "isnan":
            if isinstance(x, VFloat) and not is_conc(x.v) and is_fp(x.v):
                return VBool(z3.fpIsNaN(x.v))
            if isinstance(x, VFloat) and is_conc(x.v):
                return VBool(x.v != x.v)
            return VBool(False)
        if name == "isinf":
            if isinstance(x, VFloat) and not is_conc(x.v) and is_fp(x.v):
                return VBool(z3.fpIsInf(x.v))
            if isinstance(x, VFloat) and is_conc(x.v):
                import math
                return VBool(math.isinf(x.v))
            return VBool(False)      # real mode: every value is finite (stated: machine arithmetic treated as mathematical)
        raise Unsupported(f"ufunc {name}")
    if ex.is_arr(v):
        c = cell(ex, v)
        dt = VDtype("bool") if name in ("isnan", "isinf") else c.dtype
        return new_array(ex, c.shape, dt, lambda ix: f(c.elem(ix)))
    if not is_num(v):
        raise Unsupported(f"np.{name}({v!r})")
    return f(v)


for _n in ("abs", "trunc", "floor", "ceil", "rint", "square", "exp", "sqrt", "log10", "isnan", "isinf"):
    NP["numpy." + _n] = (lambda n: lambda ex, args, kwargs, fr: ufunc1(ex, n, args[0]))(_n)


def _round(ex, args, kwargs, fr):
    """numpy.round / numpy.around(a, decimals=d) with a concrete d: rint(a * 10**d) / 10**d (numpy's own definition; real mode: exact)."""
    v = args[0]
    d = kwargs.get("decimals", args[1] if len(args) > 1 else VInt(0))
    if not (isinstance(d, VInt) and is_conc(d.v)):
        raise Unsupported("np.round with a symbolic number of decimals")
    if kwargs.get("out") is not None and not isinstance(kwargs.get("out"), VNone):
        raise Unsupported("np.round(out=)")
    scale = VFloat(float(10 ** abs(int(d.v))))

    def f(x):
        if isinstance(x, (VInt, VBool)) and d.v >= 0:
            return x
        x = x if isinstance(x, VFloat) else VFloat(to_real(x))
        if is_conc(x.v):
            import numpy as _np
            return VFloat(float(_np.round(x.v, int(d.v))))
        if is_fp(x.v):
            raise Unsupported("np.round in IEEE mode")
        if d.v == 0:
            return ufunc1(ex, "rint", x)
        op1, op2 = (ast.Mult(), ast.Div()) if d.v > 0 else (ast.Div(), ast.Mult())
        return arith(ex.cfg, op2, ufunc1(ex, "rint", arith(ex.cfg, op1, x, scale)), scale)
    if ex.is_arr(v):
        c = cell(ex, v)
        return new_array(ex, c.shape, c.dtype, lambda ix: f(c.elem(ix)))
    if not is_num(v):
        raise Unsupported(f"np.round({v!r})")
    return f(v)


NP["numpy.round"] = NP["numpy.around"] = NP["numpy.round_"] = _round


def _isfinite(ex, args, kwargs, fr):
    v = args[0]

    def f(x):
        if isinstance(x, VFloat) and not is_conc(x.v) and is_fp(x.v):
            return VBool(z3.Not(z3.Or(z3.fpIsNaN(x.v), z3.fpIsInf(x.v))))
        if isinstance(x, VFloat) and is_conc(x.v):
            import math
            return VBool(math.isfinite(x.v))
        return VBool(True)      # real mode: every value is finite (stated: machine arithmetic treated as mathematical)
    if ex.is_arr(v):
        c = cell(ex, v)
        return new_array(ex, c.shape, VDtype("bool"), lambda ix: f(c.elem(ix)))
    return f(v)


NP["numpy.isfinite"] = _isfinite
NP["numpy.absolute"] = NP["numpy.abs"]
NP["numpy.fabs"] = NP["numpy.abs"]


def clip_scalar(ex, x, lo, hi):
    r = x
    if lo is not None and not isinstance(lo, VNone):
        r = ite_val(num_compare("lt", r, lo), lo, r) if not all(is_conc(t.v) for t in (r, lo)) else (lo if num_compare("lt", r, lo) else r)
    if hi is not None and not isinstance(hi, VNone):
        r = ite_val(num_compare("gt", r, hi), hi, r) if not all(is_conc(t.v) for t in (r, hi)) else (hi if num_compare("gt", r, hi) else r)
    return r


@npfn("numpy.clip", "ndarray.clip")
def _clip(ex, args, kwargs, fr):
    v = args[0]
    lo = kwargs.get("a_min", kwargs.get("min", args[1] if len(args) > 1 else None))
    hi = kwargs.get("a_max", kwargs.get("max", args[2] if len(args) > 2 else None))
    if ex.is_arr(lo) or ex.is_arr(hi):
        raise Unsupported("clip with array bounds")
    if ex.is_arr(v):
        c = cell(ex, v)
        dt = c.dtype
        if is_conc(dt.v) and elem_kind(dt) == "int" and any(isinstance(b, VFloat) for b in (lo, hi) if b is not None):
            dt = VDtype("float64")
        return new_array(ex, c.shape, dt, lambda ix: clip_scalar(ex, c.elem(ix), lo, hi))
    return clip_scalar(ex, v, lo, hi)


def _minmax2(is_min):
    def h(ex, args, kwargs, fr):
        a, b = args[0], args[1]
        op = "lt" if is_min else "gt"
        if ex.is_arr(a) or ex.is_arr(b):
            shape, fa, fb = broadcast(ex, a, b)
            return new_array(ex, shape, result_dtype(ex, a, b), lambda ix: ite_val(num_compare(op, fa(ix), fb(ix)), fa(ix), fb(ix)))
        c = num_compare(op, a, b)
        return (a if c else b) if isinstance(c, bool) else ite_val(c, a, b)
    return h


NP["numpy.minimum"] = _minmax2(True)
NP["numpy.maximum"] = _minmax2(False)


@npfn("numpy.where")
def _where(ex, args, kwargs, fr):
    if len(args) == 1 and ex.is_arr(args[0]) and len(cell(ex, args[0]).shape) == 1:
        # np.where(mask) of a 1-D mask (library contract): a 1-tuple holding the strictly increasing array of ALL the indices
        # at which the mask holds. Pointwise facts are instantiated at the registered 1-D generic indices; the total
        # count M is a fresh integer in 0..size.
        mc = cell(ex, args[0])
        M = ex.st.fresh_int("n_true")
        W = z3.Function(ex.st.fresh_name("where_index"), z3.IntSort(), z3.IntSort())
        size = z_int(mc.shape[0])
        ex.st.assume(z3.And(M >= 0, M <= size))
        for g in generic_indices(ex, 1):
            m = z_int(g[0])
            ex.st.assume(z3.Implies(z3.And(m >= 0, m < M), z3.And(W(m) >= 0, W(m) < size, z_bool(truth(mc.elem((W(m),)))),
                                                                    z3.Implies(m + 1 < M, W(m) < W(m + 1)))))
        out = new_array(ex, (M,), VDtype("int64"), lambda ix, W=W: VInt(W(z_int(ix[0]))))
        ex.st.cell(out).tag = ("where", W, M)
        return VTuple([out])
    if len(args) != 3:
        raise Unsupported("np.where with one argument (only 1-D masks are modelled)")
    m, a, b = args
    mc = cell(ex, m)
    _, fa, fb = broadcast(ex, a, b) if (ex.is_arr(a) or ex.is_arr(b)) else (None, lambda ix: a, lambda ix: b)
    return new_array(ex, mc.shape, result_dtype(ex, a, b) if (ex.is_arr(a) or ex.is_arr(b)) else VDtype("float64"),
                     lambda ix: ite_val(z_bool(mc.elem(ix).v), fa(ix), fb(ix)))


@npfn("numpy.nonzero")
def _nonzero(ex, args, kwargs, fr):
    """np.nonzero(mask) (library contract). 1-D: as np.where(mask). 2-D: a pair (row indices, column indices) of equal length M
    enumerating ALL the cells where the mask holds in row-major order: with the flat index W(m) = row * ncols + col, W is strictly
    increasing. Pointwise facts at the registered 1-D generic indices; M is a fresh integer in 0..size. The row-index array carries
    the tag ("where", W, M) like np.where's result (W = flat index)."""
    m = args[0]
    if not ex.is_arr(m):
        raise Unsupported("np.nonzero of a non-array")
    mc = cell(ex, m)
    if len(mc.shape) == 1:
        return _where(ex, [m], {}, fr)
    if len(mc.shape) != 2:
        raise Unsupported("np.nonzero of an array with more than two axes")
    M = ex.st.fresh_int("n_true")
    W = z3.Function(ex.st.fresh_name("where_index"), z3.IntSort(), z3.IntSort())
    nr, nc = z_int(mc.shape[0]), z_int(mc.shape[1])
    ex.st.assume(z3.And(M >= 0, M <= nr * nc))
    for g in generic_indices(ex, 1):
        k = z_int(g[0])
        ex.st.assume(z3.Implies(z3.And(k >= 0, k < M), z3.And(W(k) >= 0, W(k) < nr * nc, W(k) / nc >= 0, W(k) / nc < nr, z_bool(truth(mc.elem((W(k) / nc, W(k) % nc)))),
                                                                z3.Implies(k + 1 < M, W(k) < W(k + 1)))))
    rows = new_array(ex, (M,), VDtype("int64"), lambda ix, W=W, nc=nc: VInt(W(z_int(ix[0])) / nc))
    cols = new_array(ex, (M,), VDtype("int64"), lambda ix, W=W, nc=nc: VInt(W(z_int(ix[0])) % nc))
    ex.st.cell(rows).tag = ("where", W, M)
    return VTuple([rows, cols])


def reduce_minmax(ex, v, is_min):
    """np.min / np.max of an array: fresh scalar r with r <= a[i] (resp. >=) for the index the caller
    instantiates, plus attainment at some index. NaN propagation is not modelled (real mode)."""
    c = cell(ex, v)
    kind = elem_kind(c.dtype)
    probe = c.elem(tuple(z3.IntVal(0) for _ in c.shape))
    if isinstance(probe, VFloat) and not is_conc(probe.v) and is_fp(probe.v):
        raise Unsupported("min/max reduction in fp mode")
    r = VFloat(ex.st.fresh_real("red")) if kind == "float" else VInt(ex.st.fresh_int("red"))
    wit = tuple(ex.st.fresh_int("arg") for _ in c.shape)
    for i, s in zip(wit, c.shape):
        ex.st.assume(z3.And(i >= 0, i < z_int(s)))
    ex.st.assume(num_compare("eq", r, c.elem(wit)))
    ex.st.ghost.setdefault("reductions", []).append({"result": r, "elem": c.elem, "shape": c.shape, "kind": "min" if is_min else "max", "dtype": c.dtype})
    return r


@npfn("numpy.min", "numpy.amin", "ndarray.min")
def _npmin(ex, args, kwargs, fr):
    v = args[0]
    if is_num(v) or isinstance(v, VNone):
        return v
    if isinstance(v, VStr):
        ex.throw("TypeError", "ufunc 'minimum' did not contain a loop with signature matching types")
    if ex.is_arr(v):
        return reduce_minmax(ex, v, True)
    return ex.lib.minmax(ex, [v], {}, fr, True)


@npfn("numpy.max", "numpy.amax", "ndarray.max")
def _npmax(ex, args, kwargs, fr):
    v = args[0]
    if is_num(v) or isinstance(v, VNone):
        return v
    if isinstance(v, VStr):
        ex.throw("TypeError", "ufunc 'minimum' did not contain a loop with signature matching types")
    if ex.is_arr(v):
        return reduce_minmax(ex, v, False)
    return ex.lib.minmax(ex, [v], {}, fr, False)


def reduce_sum(ex, v, what="sum"):
    """Abstract reduction: a fresh scalar; the summand (element function at the time of the call) is
    recorded in ghost 'reductions' so that contracts can state what was summed."""
    c = cell(ex, v)
    k = elem_kind(c.dtype)
    r = VFloat(ex.st.fresh_real(what)) if k == "float" else VInt(ex.st.fresh_int(what))
    ex.st.ghost.setdefault("reductions", []).append({"result": r, "elem": c.elem, "shape": c.shape, "kind": what, "dtype": c.dtype})
    if k == "bool":
        n = 1
        for s_ in c.shape:
            n = n * z_int(s_)
        ex.st.assume(z3.And(r.v >= 0, r.v <= n))
    return r


@npfn("numpy.sum", "ndarray.sum", "numpy.nansum")
def _npsum(ex, args, kwargs, fr):
    if "axis" in kwargs:
        raise Unsupported("sum over an axis")
    if is_num(args[0]):
        return args[0]
    return reduce_sum(ex, args[0])


def generic_indices(ex, ndim):
    return [g for g in ex.st.ghost.get("generic", []) if len(g) == ndim]


def in_bounds(idx, shape):
    return z_and(*[z3.And(z_int(i) >= 0, z_int(i) < z_int(s)) for i, s in zip(idx, shape)])


def _reduce_bool(is_any):
    """np.any / np.all over a boolean array: fresh Bool b with the quantified meaning instantiated at the
    generic indices registered by the harness (ghost 'generic') and a Skolem witness."""
    def h(ex, args, kwargs, fr):
        v = args[0]
        if isinstance(v, VBool):
            return v
        if is_num(v):
            return VBool(truth(v))
        if not ex.is_arr(v):
            raise Unsupported("np.any/np.all of a non-array")
        if "axis" in kwargs:
            raise Unsupported("np.any/np.all over an axis")
        c = cell(ex, v)
        b = ex.st.fresh_bool("any" if is_any else "all")
        wit = tuple(ex.st.fresh_int("wit") for _ in c.shape)
        tw = z_bool(truth(c.elem(wit)))
        if is_any:
            ex.st.assume(z3.Implies(b, z3.And(zb_(in_bounds(wit, c.shape)), tw)))
            for g in generic_indices(ex, len(c.shape)):
                ex.st.assume(z3.Implies(z3.And(z3.Not(b), zb_(in_bounds(g, c.shape))), z3.Not(z_bool(truth(c.elem(g))))))
        else:
            ex.st.assume(z3.Implies(z3.Not(b), z3.And(zb_(in_bounds(wit, c.shape)), z3.Not(tw))))
            for g in generic_indices(ex, len(c.shape)):
                ex.st.assume(z3.Implies(z3.And(b, zb_(in_bounds(g, c.shape))), z_bool(truth(c.elem(g)))))
        return VBool(b)
    return h


def zb_(c):
    return z3.BoolVal(c) if isinstance(c, bool) else c


NP["numpy.any"] = NP["ndarray.any"] = _reduce_bool(True)
NP["numpy.all"] = NP["ndarray.all"] = _reduce_bool(False)


@npfn("numpy.divmod")
def _divmod(ex, args, kwargs, fr):
    """np.divmod(a, d) == (a // d, a % d) elementwise (floor division, library contract)."""
    import ast as _ast
    a, d = args[0], args[1]
    if ex.is_arr(a) or ex.is_arr(d):
        return VTuple([arr_binop(ex, _ast.FloorDiv(), a, d), arr_binop(ex, _ast.Mod(), a, d)])
    from .ops import arith
    return VTuple([arith(ex.cfg, _ast.FloorDiv(), a, d), arith(ex.cfg, _ast.Mod(), a, d)])


@npfn("numpy.allclose")
def _allclose(ex, args, kwargs, fr):
    """np.allclose(a, b, rtol=1e-5, atol=1e-8) == np.all(|a - b| <= atol + rtol * |b|) for finite values (library
    contract; NaN / inf handling is not modelled)."""
    a, b = args[0], args[1]
    rtol = kwargs.get("rtol", args[2] if len(args) > 2 else VFloat(1e-5))
    atol = kwargs.get("atol", args[3] if len(args) > 3 else VFloat(1e-8))
    if not (ex.is_arr(a) or ex.is_arr(b)):
        raise Unsupported("np.allclose of scalars")
    import ast as _ast
    diff = ufunc1(ex, "abs", arr_binop(ex, _ast.Sub(), a, b))
    bound = arr_binop(ex, _ast.Add(), arr_binop(ex, _ast.Mult(), ufunc1(ex, "abs", b), rtol), atol) if ex.is_arr(b) else None
    if bound is None:
        from .ops import arith
        ab = b if is_conc(b.v) and b.v >= 0 else None
        if ab is None:
            t = to_real(b)
            ab = VFloat(z3.If(t >= 0, t, -t))
        bound = arith(ex.cfg, _ast.Add(), arith(ex.cfg, _ast.Mult(), ab, rtol), atol)
    cmp_ = arr_compare(ex, "le", diff, bound)
    return NP["numpy.all"](ex, [cmp_], {}, fr)


@npfn("numpy.full_like")
def _full_like(ex, args, kwargs, fr):
    c = cell(ex, args[0])
    v = kwargs.get("fill_value", args[1] if len(args) > 1 else None)
    dt = kwargs.get("dtype")
    dtype = dtype_of_lib(dt) if dt is not None and not isinstance(dt, VNone) else c.dtype
    if not is_num(v):
        raise Unsupported("np.full_like with a non-scalar fill value")
    return const_array(ex, c.shape, dtype, v)


@npfn("numpy.array_equal")
def _array_equal(ex, args, kwargs, fr):
    a, b = args
    if is_num(a) and is_num(b):
        # two scalars are 0-d arrays: equal iff the values are equal (library contract)
        return VBool(num_compare("eq", a, b))
    if isinstance(a, VStr) and isinstance(b, VStr):
        return VBool(z_str(a.v) == z_str(b.v)) if not (is_conc(a.v) and is_conc(b.v)) else VBool(a.v == b.v)
    if (is_num(a) and ex.is_arr(b)) or (ex.is_arr(a) and is_num(b)):
        arr, sc = (b, a) if is_num(a) else (a, b)
        c = cell(ex, arr)
        if len(c.shape) > 0:
            allone = z_and(*[z_int(d) == 1 for d in c.shape])
            if allone is not True and not ex.st.branch(z_bool(allone) if not isinstance(allone, bool) else z3.BoolVal(allone)):
                return VBool(False)        # shapes (n,) and () differ unless every dimension is 1
        return VBool(num_compare("eq", c.elem(tuple(z3.IntVal(0) for _ in c.shape)), sc))
    if not (ex.is_arr(a) and ex.is_arr(b)):
        la, lb = ex.try_list(a), ex.try_list(b)
        if (la is not None and (is_num(b) or lb is not None)) or (lb is not None and is_num(a)):
            if la is not None and lb is not None and len(la) == len(lb) and all(is_num(x) for x in la + lb):
                return VBool(z_and(*[num_compare("eq", x, y) for x, y in zip(la, lb)]))
            if la is not None and lb is not None and len(la) != len(lb):
                return VBool(False)
            one, sc = (la, b) if la is not None else (lb, a)
            if len(one) == 1 and is_num(one[0]) and is_num(sc):
                return VBool(num_compare("eq", one[0], sc))
            if len(one) != 1:
                return VBool(False)
        if (isinstance(a, VNone) and ex.is_arr(b)) or (isinstance(b, VNone) and ex.is_arr(a)):
            # np.asarray(None) is a 0-d object array holding None: never equal to a numeric array (a 0-d or all-ones-shaped numeric array
            # compares element-wise to None -> False)
            return VBool(False)
        raise Unsupported("array_equal on non-arrays")
    ca, cb = cell(ex, a), cell(ex, b)
    se = shape_eq(ca.shape, cb.shape)
    if se is False:
        return VBool(False)
    r = ex.st.fresh_bool("array_equal")
    ix = fresh_index(ex, ca.shape, "ae")
    # r  =>  same shape and equal at an arbitrary index ; (same shape and all equal) => r is not derivable
    # pointwise, so `r` is otherwise unconstrained (sound for proofs that only use r's consequences).
    ex.st.assume(z3.Implies(r, z_bool(z_and(se, num_compare("eq", ca.elem(ix), cb.elem(ix))))))
    return VBool(r)


@npfn("numpy.isscalar")
def _isscalar(ex, args, kwargs, fr):
    return VBool(is_num(args[0]) or isinstance(args[0], VStr))


@npfn("numpy.dtype")
def _dtype(ex, args, kwargs, fr):
    d = dtype_of_lib(args[0])
    if d is None:
        raise Unsupported("np.dtype()")
    return d


@npfn("numpy.iinfo")
def _iinfo(ex, args, kwargs, fr):
    d = dtype_of_lib(args[0])
    if d is None or not is_conc(d.v) or d.v not in INT_DT + UINT_DT:
        raise Unsupported("np.iinfo of a non-integer or symbolic dtype")
    bits = int("".join(c for c in d.v if c.isdigit()))
    lo, hi = (0, 2**bits - 1) if d.v in UINT_DT else (-2**(bits - 1), 2**(bits - 1) - 1)
    return VOpaque("iinfo", None, {"min": VInt(lo), "max": VInt(hi), "bits": VInt(bits)})


@npfn("numpy.issubdtype")
def _issubdtype(ex, args, kwargs, fr):
    d = dtype_of_lib(args[0])
    t = args[1]
    tn = t.name.split(".")[-1] if isinstance(t, VLib) else None
    groups = {"floating": FLOAT_DT, "integer": INT_DT + UINT_DT, "unsignedinteger": UINT_DT, "signedinteger": INT_DT,
              "number": FLOAT_DT + INT_DT + UINT_DT + ("complex64", "complex128"), "bool_": ("bool",)}
    if d is None or tn not in groups:
        raise Unsupported("np.issubdtype")
    return VBool(dtype_in(ex, d, groups[tn]))


@npfn("ndarray.flatten", "ndarray.ravel", "numpy.ravel")
def _flatten(ex, args, kwargs, fr):
    c = cell(ex, args[0])
    if len(c.shape) == 1:
        return _copy(ex, [args[0]], {}, fr)
    if len(c.shape) == 2:
        n0, n1 = c.shape
        n1z = z_int(n1)
        return new_array(ex, (n0 * n1,), c.dtype, lambda ix: c.elem((z_int(ix[0]) / n1z, z_int(ix[0]) % n1z)))
    raise Unsupported("flatten of >2-D array")


@npfn("numpy.arange")
def _arange(ex, args, kwargs, fr):
    if len(args) == 1 and isinstance(args[0], (VInt,)) and "dtype" not in kwargs:
        n = args[0].v
        if is_conc(n):
            items = [VInt(i) for i in range(n)]
            return new_array(ex, (n,), VDtype("int64"), lambda ix, items=items: _select(items, ix[0]))
        return new_array(ex, (z3.If(n > 0, n, 0),), VDtype("int64"), lambda ix: VInt(z_int(ix[0])))
    if len(args) == 3 and all(is_num(a) for a in args) and isinstance(args[2], (VFloat, VInt)) and is_conc(args[2].v) and float(args[2].v) == 1.0 \
            and isinstance(args[0], (VFloat, VInt)) and is_conc(args[0].v) and float(args[0].v) == 0.0:
        n = z_int(int_of(args[1])) if isinstance(args[1], (VInt, VBool)) else None
        if n is not None:
            isf = isinstance(args[0], VFloat) or isinstance(args[2], VFloat)
            return new_array(ex, (z3.If(n > 0, n, 0),), VDtype("float64" if isf else "int64"),
                             lambda ix: (VFloat(z3.ToReal(z_int(ix[0]))) if isf else VInt(z_int(ix[0]))))
    raise Unsupported("np.arange with these arguments")


def _select(items, i):
    if not is_conc(i):
        i = z3.simplify(i)
    if is_conc(i) or z3.is_int_value(z_int(i)):
        return items[i if is_conc(i) else z_int(i).as_long()]
    out = items[-1]
    for j in range(len(items) - 2, -1, -1):
        out = ite_val(z_int(i) == j, items[j], out)
    return out


normal_draw = z3.Function("normal_draw", z3.IntSort(), z3.IntSort(), z3.IntSort(), z3.RealSort())


@npfn("numpy.random.normal")
def _normal(ex, args, kwargs, fr):
    """Library contract: a draw of N(loc, scale); with scale == 0 every sample equals loc exactly.
    Advances the ghost RNG state."""
    loc = kwargs.get("loc", args[0] if args else VFloat(0.0))
    scale = kwargs.get("scale", args[1] if len(args) > 1 else VFloat(1.0))
    size = kwargs.get("size", args[2] if len(args) > 2 else None)
    rng_draw(ex)
    did = ex.st.fresh_int("draw")
    if size is None or isinstance(size, VNone):
        raise Unsupported("scalar normal draw")
    shape = shape_arg(ex, size, fr)
    if len(shape) != 2:
        raise Unsupported("normal draw of this rank")
    zero = is_zero(scale)

    def elem(ix):
        noise = normal_draw(did, z_int(ix[0]), z_int(ix[1]))
        return VFloat(z3.If(zero if not isinstance(zero, bool) else z3.BoolVal(zero), to_real(loc), to_real(loc) + to_real(scale) * noise))
    return new_array(ex, shape, VDtype("float64"), elem)


@npfn("numpy.intersect1d")
def _intersect1d(ex, args, kwargs, fr):
    """Library contract restricted to two arrays of consecutive integers (np.array(range(a, b))):
    the result is the sorted array of the integers in both, i.e. range(max(a1,a2), min(b1,b2))."""
    ca, cb = cell(ex, args[0]), cell(ex, args[1])
    if not (ca.tag and ca.tag[0] == "range" and cb.tag and cb.tag[0] == "range"):
        raise Unsupported("np.intersect1d on arrays that are not integer ranges")
    lo = z3.If(ca.tag[1] >= cb.tag[1], ca.tag[1], cb.tag[1])
    hi = z3.If(ca.tag[2] <= cb.tag[2], ca.tag[2], cb.tag[2])
    # an empty operand has lo == hi; the intersection with it is empty
    empty = z3.Or(ca.tag[1] >= ca.tag[2], cb.tag[1] >= cb.tag[2], hi <= lo)
    n = z3.simplify(z3.If(empty, 0, hi - lo))
    lo = z3.simplify(lo)
    out = new_array(ex, (n,), VDtype("int64"), lambda ix, lo=lo: VInt(lo + z_int(ix[0])))
    ex.st.cell(out).tag = ("range", lo, z3.simplify(lo + n))
    return out


@npfn("numpy.diff")
def _diff(ex, args, kwargs, fr):
    c = cell(ex, args[0])
    if len(c.shape) != 1:
        raise Unsupported("np.diff of a non 1-D array")
    n = z_int(c.shape[0])
    extra = {k: v for k, v in kwargs.items() if k not in ("axis", "n", "prepend") and not isinstance(v, VNone)}
    if extra or (len(args) > 1 and not (isinstance(args[1], VInt) and is_conc(args[1].v) and args[1].v == 1)):
        raise Unsupported("np.diff with n != 1 / append")
    pre = kwargs.get("prepend")
    if pre is not None and not isinstance(pre, VNone):
        # diff(a, prepend=p): differences of [p, a0, a1, ...] -- as many as a has elements (p: a number or a 1-element array)
        if ex.is_arr(pre):
            pc = cell(ex, pre)
            if not (len(pc.shape) == 1 and is_conc(pc.shape[0]) and int(pc.shape[0]) == 1):
                raise Unsupported("np.diff(prepend=<array of several elements>)")
            pv = pc.elem((z3.IntVal(0),))
        elif is_num(pre):
            pv = pre
        else:
            raise Unsupported("np.diff(prepend=...)")
        prev = lambda i: ite_val(i == 0, pv, c.elem((i - 1,)))
        return new_array(ex, (n,), result_dtype(ex, args[0], pre) if ex.is_arr(pre) else (VDtype("float64") if isinstance(pre, VFloat) else c.dtype),
                         lambda ix: arith(ex.cfg, ast.Sub(), c.elem((z_int(ix[0]),)), prev(z_int(ix[0]))))
    return new_array(ex, (z3.simplify(z3.If(n > 0, n - 1, 0)),), c.dtype,
                     lambda ix: arith(ex.cfg, ast.Sub(), c.elem((z_int(ix[0]) + 1,)), c.elem((z_int(ix[0]),))))


@npfn("numpy.atleast_1d")
def _atleast_1d(ex, args, kwargs, fr):
    v = args[0]
    if ex.is_arr(v):
        c = cell(ex, v)
        if len(c.shape) >= 1:
            return v                                   # numpy: the SAME array when it has a dimension already
        return new_array(ex, (1,), c.dtype, lambda ix: c.elem(()))
    if is_num(v):
        return new_array(ex, (1,), VDtype("float64" if isinstance(v, VFloat) else "int64"), lambda ix: v)
    raise Unsupported("np.atleast_1d of a non-array")


@npfn("numpy.concatenate")
def _concatenate(ex, args, kwargs, fr):
    parts = ex.iterate(args[0], fr)
    cs = [cell(ex, p) for p in parts]
    if any(len(c.shape) != 1 for c in cs):
        raise Unsupported("np.concatenate of non 1-D arrays")
    offs, total = [], z3.IntVal(0)
    for c in cs:
        offs.append(total)
        total = total + z_int(c.shape[0])

    def elem(ix):
        i = z_int(ix[0])
        out = cs[-1].elem((i - offs[-1],))
        for c, o in list(zip(cs, offs))[-2::-1]:
            out = ite_val(i < o + z_int(c.shape[0]), c.elem((i - o,)), out)
        return out
    return new_array(ex, (z3.simplify(total),), result_dtype(ex, parts[0], parts[-1]), elem)


# ---- legacy global random generator: ghost state RNG -------------------------------------------------------
rng_seeded = z3.Function("rng_seeded", z3.IntSort(), z3.IntSort())
rng_advance = z3.Function("rng_advance", z3.IntSort(), z3.IntSort())


def rng_get(ex):
    if "RNG" not in ex.st.ghost:
        ex.st.ghost["RNG"] = z3.Int("RNG0")
    return ex.st.ghost["RNG"]


@npfn("numpy.random.get_state")
def _rng_get_state(ex, args, kwargs, fr):
    return VOpaque("rngstate", rng_get(ex), {})


@npfn("numpy.random.set_state")
def _rng_set_state(ex, args, kwargs, fr):
    if not (isinstance(args[0], VOpaque) and args[0].kind == "rngstate"):
        raise Unsupported("np.random.set_state of an unknown state object")
    ex.st.ghost["RNG"] = args[0].t
    ex.st.events.append(("rng_set_state", args[0].t))
    return NONE


@npfn("numpy.random.seed")
def _rng_seed(ex, args, kwargs, fr):
    s = args[0] if args else kwargs.get("seed", NONE)
    if isinstance(s, VNone):
        ex.st.ghost["RNG"] = ex.st.fresh_int("rng_entropy")
    else:
        ex.st.ghost["RNG"] = rng_seeded(z_int(int_of(s)))
    ex.st.events.append(("rng_seed", s))
    return NONE


# The legacy generator's full state (np.random.get_state) = bit-generator state + the cached second Gaussian deviate
# (has_gauss, cached_gaussian). `np.random.get_bit_generator().state` exposes ONLY the first part: restoring it leaves
# the cache as it is. rng_bg projects the full state, rng_with_bg replaces that part; the only law assumed is
# rng_with_bg(S, rng_bg(S)) == S.
rng_bg = z3.Function("rng_bg", z3.IntSort(), z3.IntSort())
rng_with_bg = z3.Function("rng_with_bg", z3.IntSort(), z3.IntSort(), z3.IntSort())


@npfn("numpy.random.get_bit_generator")
def _rng_get_bitgen(ex, args, kwargs, fr):
    return VOpaque("bitgen", None, {})


def bitgen_get_state(ex):
    return VOpaque("bgstate", rng_bg(rng_get(ex)), {})


def bitgen_set_state(ex, val):
    if not (isinstance(val, VOpaque) and val.kind == "bgstate"):
        raise Unsupported("bit_generator.state = <unknown object>")
    cur = rng_get(ex)
    new = rng_with_bg(cur, val.t)
    ex.st.assume(z3.Implies(val.t == rng_bg(cur), new == cur))
    ex.st.ghost["RNG"] = new
    ex.st.events.append(("rng_set_bg_state", val.t))
    return None


def rng_draw(ex):
    ex.st.ghost["RNG"] = rng_advance(rng_get(ex))
    ex.st.events.append(("rng_draw",))


binom_draw = z3.Function("binom_draw", z3.IntSort(), z3.IntSort(), z3.IntSort(), z3.IntSort())


@npfn("numpy.random.binomial")
def _binomial(ex, args, kwargs, fr):
    """Library contract: B(n, p) sample per element with 0 <= B <= n (requires n >= 0 and 0 <= p <= 1, else numpy
    raises ValueError)."""
    n = kwargs.get("n", args[0] if args else None)
    p = kwargs.get("p", args[1] if len(args) > 1 else None)
    if not ex.is_arr(n):
        raise Unsupported("scalar binomial draw")
    rng_draw(ex)
    c = cell(ex, n)
    did = ex.st.fresh_int("draw")

    def elem(ix):
        nn = z_int(as_int_term(c.elem(ix)))
        b = binom_draw(did, z_int(ix[0]), z_int(ix[1])) if len(ix) == 2 else ex.st.fresh_int("binom")
        return VInt(z3.If(b < 0, 0, z3.If(b > nn, z3.If(nn < 0, 0, nn), b)))
    return new_array(ex, c.shape, VDtype("int64"), elem)


@npfn("numpy.mean")
def _mean(ex, args, kwargs, fr):
    c = cell(ex, args[0])
    r = VFloat(ex.st.fresh_real("mean"))
    ex.st.ghost.setdefault("reductions", []).append({"result": r, "elem": c.elem, "shape": c.shape, "kind": "mean", "dtype": c.dtype})
    return r


@npfn("numpy.floor_divide")
def _floor_divide(ex, args, kwargs, fr):
    """floor(a / b) elementwise (contract for b > 0; exact real arithmetic)."""
    a, b = args[0], args[1]

    def f(x, y):
        return VFloat(z3.ToReal(z3.ToInt(to_real(x) / to_real(y))))
    if ex.is_arr(a) or ex.is_arr(b):
        shape, fa, fb = broadcast(ex, a, b)
        return new_array(ex, shape, VDtype("float64"), lambda ix: f(fa(ix), fb(ix)))
    return f(a, b)


@npfn("numpy.repeat")
def _repeat(ex, args, kwargs, fr):
    c = cell(ex, args[0])
    reps = z_int(int_of(args[1] if len(args) > 1 else kwargs["repeats"]))
    if len(c.shape) != 1:
        raise Unsupported("np.repeat of a non 1-D array")
    el = c.elem
    return new_array(ex, (z_int(c.shape[0]) * reps,), c.dtype, lambda ix: el((z_int(ix[0]) / reps,)))


@npfn("numpy.tile")
def _tile(ex, args, kwargs, fr):
    c = cell(ex, args[0])
    reps = z_int(int_of(args[1] if len(args) > 1 else kwargs["reps"]))
    if len(c.shape) != 1:
        raise Unsupported("np.tile of a non 1-D array")
    el, n = c.elem, z_int(c.shape[0])
    return new_array(ex, (n * reps,), c.dtype, lambda ix: el((z_int(ix[0]) % n,)))


def _select_any(items, i):
    if not is_conc(i):
        i = z3.simplify(i)
        if not z3.is_int_value(i):
            raise Unsupported("symbolic index into an array of strings")
        i = i.as_long()
    return items[i]


@npfn("numpy.power")
def _power(ex, args, kwargs, fr):
    a, b = args[0], args[1]
    if is_num(a) and ex.is_arr(b):
        c = cell(ex, b)
        el = c.elem
        return new_array(ex, c.shape, VDtype("float64"), lambda ix: arith(ex.cfg, ast.Pow(), a if isinstance(a, VFloat) else VFloat(float(a.v)) if is_conc(a.v) else a, el(ix)))
    if is_num(a) and is_num(b):
        return arith(ex.cfg, ast.Pow(), a if isinstance(a, VFloat) else (VFloat(float(a.v)) if is_conc(a.v) else a), b)
    raise Unsupported("np.power with these operands")


@npfn("math.log10", "numpy.log10")
def _log10(ex, args, kwargs, fr):
    return ufunc1(ex, "log10", args[0])


@npfn("ndarray.tolist")
def _tolist(ex, args, kwargs, fr):
    c = cell(ex, args[0])
    if len(c.shape) == 1 and is_conc(c.shape[0]):
        return ex.st.alloc(HList([c.elem((z3.IntVal(i),)) for i in range(c.shape[0])]))
    if len(c.shape) == 1 and z3.is_int_value(z3.simplify(z_int(c.shape[0]))):
        n = z3.simplify(z_int(c.shape[0])).as_long()
        return ex.st.alloc(HList([c.elem((z3.IntVal(i),)) for i in range(n)]))
    raise Unsupported("tolist of an array of symbolic length")
