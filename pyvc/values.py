"""Symbolic values of the pyvc executor.

Scalars keep *concrete* Python values as long as they are concrete (so concrete arithmetic is
CPython's own, including float rounding) and become z3 terms only when symbolic:

  VInt.v   : int   | z3 Int term      (mathematical integers = Python ints)
  VBool.v  : bool  | z3 Bool term
  VFloat.v : float | z3 Real term (modes "real"/"rnd")  | z3 FP(11,53) term (mode "fp")
  VStr.v   : str   | z3 String term
"""
from __future__ import annotations

import fractions
import math

import z3

F64 = z3.Float64()
RNE = z3.RNE()


class Val:
    pass


class VNone(Val):
    def __repr__(self):
        return "None"


NONE = VNone()


class VBool(Val):
    def __init__(self, v):
        self.v = v

    def __repr__(self):
        return f"VBool({self.v})"


class VInt(Val):
    def __init__(self, v):
        self.v = v

    def __repr__(self):
        return f"VInt({self.v})"


class VFloat(Val):
    def __init__(self, v):
        self.v = v

    def __repr__(self):
        return f"VFloat({self.v})"


class VStr(Val):
    def __init__(self, v):
        self.v = v

    def __repr__(self):
        return f"VStr({self.v!r})"


class VTuple(Val):
    def __init__(self, items):
        self.items = list(items)

    def __repr__(self):
        return f"VTuple({self.items})"


class VRef(Val):
    """Pointer to a concrete-structure heap cell (HObj / HList / HDict / HArr)."""

    def __init__(self, addr: int):
        self.addr = addr

    def __repr__(self):
        return f"VRef({self.addr})"


class VSym(Val):
    """Symbolic object reference of a known class; fields live in per-state field arrays."""

    def __init__(self, cls, t):
        self.cls, self.t = cls, t     # cls: ClassInfo | str ; t: z3 Int term

    def __repr__(self):
        return f"VSym({getattr(self.cls, 'name', self.cls)}, {self.t})"


class VSeq(Val):
    """Immutable sequence of symbolic length. `get(i)` maps a z3 Int index to a Val."""

    def __init__(self, n, get, term=None, kind="list"):
        self.n, self.get, self.term, self.kind = n, get, term, kind

    def __repr__(self):
        return f"VSeq(len={self.n})"


class VFunc(Val):
    def __init__(self, fi, self_val=None, closure=None):
        self.fi, self.self_val, self.closure = fi, self_val, closure

    def __repr__(self):
        return f"VFunc({self.fi.qualname})"


class VClass(Val):
    def __init__(self, ci):
        self.ci = ci

    def __repr__(self):
        return f"VClass({self.ci.name})"


class VLib(Val):
    """A library object by canonical dotted name (module, function, constant, type)."""

    def __init__(self, name: str, self_val=None):
        self.name, self.self_val = name, self_val

    def __repr__(self):
        return f"VLib({self.name})"


class VOpaque(Val):
    """Boundary object (xarray/pandas/logger...). `t` is a z3 Int identity or None."""

    def __init__(self, kind: str, t=None, info=None):
        self.kind, self.t, self.info = kind, t, info or {}

    def __repr__(self):
        return f"VOpaque({self.kind})"


class VMaybe(Val):
    """Optional value: `val` if the symbolic Bool `present` holds, else None (avoids 2^n path splits for
    independent optional fields such as the ten model groups of a pipeline)."""

    def __init__(self, present, val):
        self.present, self.val = present, val

    def __repr__(self):
        return f"VMaybe({self.present}, {self.val})"


class VSlice(Val):
    def __init__(self, lo, hi, step):
        self.lo, self.hi, self.step = lo, hi, step

    def __repr__(self):
        return f"VSlice({self.lo},{self.hi},{self.step})"


class VRange(Val):
    def __init__(self, lo, hi, step=None):
        self.lo, self.hi, self.step = lo, hi, step

    def __repr__(self):
        return f"VRange({self.lo},{self.hi})"


class VDtype(Val):
    """numpy dtype: concrete name ("float64", ...) or symbolic Int code into DTYPES."""

    def __init__(self, v):
        self.v = v

    def __repr__(self):
        return f"VDtype({self.v})"


DTYPES = ["bool", "int8", "int16", "int32", "int64", "uint8", "uint16", "uint32", "uint64",
          "float16", "float32", "float64", "complex64", "complex128", "object", "str"]


# ---- heap cells ---------------------------------------------------------------------------
class HObj:
    def __init__(self, cls, fields=None):
        self.cls, self.fields = cls, dict(fields or {})

    def copy(self):
        return HObj(self.cls, self.fields)


class HList:
    def __init__(self, items):
        self.items = list(items)

    def copy(self):
        return HList(self.items)


class HDict:
    def __init__(self, items=None):
        self.items = list(items or [])    # [(key Val, value Val)] insertion order

    def copy(self):
        return HDict(self.items)


def _memo(f):
    """Memoise an element function on the identity of the index terms (element functions form DAGs:
    without this, k chained updates are evaluated 2^k times)."""
    if getattr(f, "_memoised", False):
        return f
    cache = {}

    def g(idx):
        key = tuple((i.get_id() if hasattr(i, "get_id") else ("c", i)) for i in idx)
        hit = cache.get(key)
        if hit is None:
            hit = (f(idx), idx)        # keep idx alive so ids are not recycled
            cache[key] = hit
        return hit[0]
    g._memoised = True
    g._raw = f
    return g


class HArr:
    """numpy array: symbolic shape, dtype and a pointwise element function idx -> scalar Val."""

    def __init__(self, shape, dtype, elem, tag=None):
        self.shape, self.dtype, self.tag = tuple(shape), dtype, tag
        self.elem = elem

    @property
    def elem(self):
        """Element function. For a view this is a SNAPSHOT of the base array at the time of the read, so arrays
        built from it do not change when the base is written later (numpy computes eagerly)."""
        if self.tag and self.tag[0] == "view" and getattr(self, "_heap", None) is not None:
            _, addr, maps = self.tag
            bel = self._heap[addr].elem

            def snap(ix, bel=bel, maps=maps):
                full, j = [], 0
                for kind, t in maps:
                    if kind == "int":
                        full.append(t)
                    else:
                        full.append(t + z_int(ix[j]))
                        j += 1
                return bel(tuple(full))
            return _memo(snap)
        return self._elem

    @elem.setter
    def elem(self, f):
        self._elem = _memo(f)

    def copy(self):
        return HArr(self.shape, self.dtype, self._elem, self.tag)


# ---- helpers ------------------------------------------------------------------------------
def is_conc(x) -> bool:
    return not isinstance(x, z3.ExprRef)


def z_int(x):
    return z3.IntVal(x) if isinstance(x, int) and not isinstance(x, bool) else (z3.IntVal(int(x)) if isinstance(x, bool) else x)


def z_bool(x):
    return z3.BoolVal(x) if isinstance(x, bool) else x


def z_str(x):
    return z3.StringVal(x) if isinstance(x, str) else x


def real_of_float(f: float):
    fr = fractions.Fraction(f)
    return z3.RealVal(fr)


def is_fp(t) -> bool:
    return isinstance(t, z3.FPRef)


def z_float_like(x, like):
    """Concrete float/int -> constant of the same sort as the symbolic term `like`."""
    if not is_conc(x):
        return x
    if is_fp(like):
        return z3.FPVal(float(x), F64)
    if isinstance(x, float):
        if math.isnan(x) or math.isinf(x):
            raise ValueError("non-finite constant in real mode")
        return real_of_float(x)
    return z3.RealVal(x)
