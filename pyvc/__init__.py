"""pyvc: verification-condition generator for real Python source (see /verif/DESIGN.md)."""
