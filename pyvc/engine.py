"""pyvc symbolic executor: interprets the AST of real repository functions over symbolic values.

One `Ex` instance executes one path (see state.explore). Python exceptions of the interpreted
program are PyExc; constructs outside the subset raise Unsupported (function UNDECIDED).
"""
from __future__ import annotations

import ast

import z3

from .front import World, FunctionInfo, ClassInfo, ModuleInfo
from .ops import *  # noqa: F401,F403
from .state import State, Unsupported, PathEnd, PyExc, NeedBranch
from .values import *  # noqa: F401,F403


class _Return(Exception):
    def __init__(self, val):
        self.val = val


class _Break(Exception):
    pass


class _Continue(Exception):
    pass


def same_header_modulo_targets(spec_header: str, s) -> bool:
    """A `for` header matches its contract when the iterable is textually the same and the target has the same shape;
    the NAMES of the loop variables are incidental (contracts speak about the iteration index, not about them)."""
    if not isinstance(s, ast.For) or " in " not in spec_header:
        return False
    tgt, it = spec_header.split(" in ", 1)
    if it != ast.unparse(s.iter):
        return False
    try:
        a = ast.parse(tgt, mode="eval").body
    except SyntaxError:
        return False

    def shape(n):
        if isinstance(n, (ast.Tuple, ast.List)):
            return tuple(shape(e) for e in n.elts)
        return "name" if isinstance(n, ast.Name) else ast.dump(n)
    return shape(a) == shape(s.target)


MAP_PURE_CALLS = {"min", "max", "abs", "float", "int", "round", "bool", "len", "range"}


def analyse_map_body(body, v):
    """Syntactic independence check for engine.map_loop. Returns {array name: position of v in its index}; raises
    Unsupported with the reason when the body is not recognisably an independent-iteration body."""
    mod = ast.Module(body=list(body), type_ignores=[])
    written = {}

    def idx_elts(sub):
        sl = sub.slice
        return list(sl.elts) if isinstance(sl, ast.Tuple) else [sl]

    def pos_of(sub):
        ps = [i for i, e in enumerate(idx_elts(sub)) if isinstance(e, ast.Name) and e.id == v]
        return ps[0] if len(ps) == 1 else None
    for n in ast.walk(mod):
        if isinstance(n, (ast.Return, ast.Break, ast.Continue, ast.Yield, ast.YieldFrom, ast.Raise, ast.While, ast.With, ast.Try, ast.Global, ast.Nonlocal, ast.Delete)):
            raise Unsupported(f"loop body contains {type(n).__name__}: not an independent-iteration loop")
        if isinstance(n, ast.Subscript) and isinstance(n.ctx, ast.Store):
            if not isinstance(n.value, ast.Name):
                raise Unsupported("store into a non-local array in a loop without invariant")
            p = pos_of(n)
            if p is None or written.setdefault(n.value.id, p) != p:
                raise Unsupported(f"store {ast.unparse(n)} is not indexed by the loop variable {v} at a fixed position")
        if isinstance(n, ast.Attribute) and isinstance(n.ctx, ast.Store):
            raise Unsupported("attribute store in a loop without invariant")
        if isinstance(n, ast.Call):
            f = ast.unparse(n.func)
            if not (f in MAP_PURE_CALLS or f.startswith(("np.", "numpy.", "math."))):
                raise Unsupported(f"call of {f} in a loop without invariant")
        if isinstance(n, ast.For) and not (isinstance(n.iter, ast.Call) and ast.unparse(n.iter.func) == "range" and isinstance(n.target, ast.Name)):
            raise Unsupported("nested loop that is not `for x in range(..)`")
    for n in ast.walk(mod):
        if isinstance(n, ast.Subscript) and isinstance(n.ctx, ast.Load) and isinstance(n.value, ast.Name) and n.value.id in written:
            if pos_of(n) != written[n.value.id]:
                raise Unsupported(f"read {ast.unparse(n)} of an array written in the loop at another index: iterations are not independent")
        if isinstance(n, ast.Name) and n.id in written:
            pass
    # written arrays may only occur as subscripted names
    sub_vals = {id(n.value) for n in ast.walk(mod) if isinstance(n, ast.Subscript)}
    for n in ast.walk(mod):
        if isinstance(n, ast.Name) and n.id in written and id(n) not in sub_vals:
            raise Unsupported(f"array {n.id} written in the loop is also used as a whole: iterations may not be independent")
    # scalars: assigned before use in every iteration, never augmented (no loop-carried value)
    stores, loads = {}, {}
    for n in ast.walk(mod):
        if isinstance(n, ast.AugAssign) and isinstance(n.target, ast.Name):
            raise Unsupported(f"scalar {n.target.id} is accumulated across iterations: needs a loop invariant")
        if isinstance(n, ast.Name) and n.id != v and n.id not in written:
            d = stores if isinstance(n.ctx, ast.Store) else loads
            d.setdefault(n.id, []).append((n.lineno, n.col_offset))
    top_level_assigned = set()
    for st_ in body:
        if isinstance(st_, (ast.Assign, ast.AnnAssign)):
            for t in (st_.targets if isinstance(st_, ast.Assign) else [st_.target]):
                if isinstance(t, ast.Name):
                    top_level_assigned.add(t.id)
    for name, ss in stores.items():
        if name in loads:
            if min(loads[name]) < min(ss):
                raise Unsupported(f"scalar {name} is read before it is assigned in the iteration: loop-carried value")
            inner_loop_vars = {n.target.id for n in ast.walk(mod) if isinstance(n, ast.For) and isinstance(n.target, ast.Name)}
            if name not in top_level_assigned and name not in inner_loop_vars:
                # assigned only conditionally / in a nested block: accept only if every read is in the same nested statement
                owner = None
                for st_ in body:
                    if any(isinstance(m, ast.Name) and m.id == name for m in ast.walk(st_)):
                        if owner is None:
                            owner = st_
                        elif owner is not st_:
                            raise Unsupported(f"scalar {name} is assigned conditionally and read elsewhere in the iteration")
    return written


def abstract_escapes(body):
    """return / break / continue statements of a block that leave the block (not those of nested defs / loops)."""
    out, seen = [], set()

    def walk(nodes, in_loop):
        for n in nodes:
            if isinstance(n, (ast.FunctionDef, ast.AsyncFunctionDef, ast.Lambda, ast.ClassDef)):
                continue
            if isinstance(n, ast.Return) and "return" not in seen:
                seen.add("return")
                out.append(("return", n))
            elif isinstance(n, ast.Break) and not in_loop and "break" not in seen:
                seen.add("break")
                out.append(("break", n))
            elif isinstance(n, ast.Continue) and not in_loop and "continue" not in seen:
                seen.add("continue")
                out.append(("continue", n))
            for fld in ("body", "orelse", "finalbody", "handlers"):
                sub = getattr(n, fld, None)
                if isinstance(sub, list):
                    walk(sub, in_loop or (isinstance(n, (ast.For, ast.While)) and fld == "body"))
    walk(body, False)
    return out


BUILTIN_EXC_PARENT = {
    "BaseException": None, "Exception": "BaseException", "KeyboardInterrupt": "BaseException",
    "SystemExit": "BaseException", "GeneratorExit": "BaseException",
    "ArithmeticError": "Exception", "ZeroDivisionError": "ArithmeticError", "OverflowError": "ArithmeticError",
    "FloatingPointError": "ArithmeticError",
    "AssertionError": "Exception", "AttributeError": "Exception", "LookupError": "Exception",
    "KeyError": "LookupError", "IndexError": "LookupError", "NameError": "Exception",
    "OSError": "Exception", "FileNotFoundError": "OSError", "FileExistsError": "OSError", "IOError": "Exception",
    "PermissionError": "OSError", "NotADirectoryError": "OSError", "IsADirectoryError": "OSError",
    "RuntimeError": "Exception", "NotImplementedError": "RuntimeError", "RecursionError": "RuntimeError",
    "StopIteration": "Exception", "TypeError": "Exception", "ValueError": "Exception",
    "UnicodeError": "ValueError", "ImportError": "Exception", "ModuleNotFoundError": "ImportError",
    "Warning": "Exception", "DeprecationWarning": "Warning", "FutureWarning": "Warning", "UserWarning": "Warning",
    "RuntimeWarning": "Warning", "ResourceWarning": "Warning", "PendingDeprecationWarning": "Warning",
    "MemoryError": "Exception", "SyntaxError": "Exception",
}

BUILTIN_TYPES = {"int", "float", "str", "bool", "tuple", "list", "dict", "set", "frozenset", "object", "type",
                 "bytes", "complex", "range", "slice"}

exc_subclass = z3.Function("exc_subclass", z3.IntSort(), z3.StringSort(), z3.BoolSort())


def exc_is_subclass(name: str, parent: str) -> bool:
    while name is not None:
        if name == parent:
            return True
        name = BUILTIN_EXC_PARENT.get(name)
    return False


class Locals(dict):
    """Local variables of a frame. Contracts name locals as they were called when the contract was written; when a
    local has been RENAMED since (alias map computed from the binding signatures, front.align_locals), a lookup of the
    old name that finds nothing is redirected to the new name. Lookups of existing names are never redirected."""
    alias: dict = {}

    def _k(self, k):
        return self.alias[k] if (not dict.__contains__(self, k) and k in self.alias) else k

    def __getitem__(self, k):
        return dict.__getitem__(self, self._k(k))

    def get(self, k, d=None):
        return dict.get(self, self._k(k), d)

    def __contains__(self, k):
        return dict.__contains__(self, self._k(k))

    def __setitem__(self, k, v):
        dict.__setitem__(self, self._k(k), v)


_LOCALS_REF = None


def locals_alias(fi):
    global _LOCALS_REF
    if _LOCALS_REF is None:
        import json, os, pathlib
        p = pathlib.Path(os.environ.get("PYVC_LOCALS_REF", pathlib.Path(__file__).resolve().parent.parent / "contracts" / "locals_ref.json"))
        _LOCALS_REF = json.loads(p.read_text()) if p.exists() else {}
    ref = _LOCALS_REF.get(fi.qualname)
    if not ref:
        return {}
    cache = getattr(fi, "_alias", None)
    if cache is None:
        from .front import align_locals
        cur = fi.local_bindings()
        cache = fi._alias = {} if [list(x) for x in cur] == [list(x) for x in ref] else align_locals([tuple(x) for x in ref], cur)
    return cache


class Frame:
    def __init__(self, fi: FunctionInfo | None, module: ModuleInfo | None, locals_=None, parent=None, cls=None):
        self.fi, self.module, self.parent, self.cls = fi, module, parent, cls
        self.locals = Locals(locals_ or {})
        if fi is not None:
            al = locals_alias(fi)
            if al:
                self.locals.alias = al
        self.loop_ordinal = 0
        self.self_val = None


class Contract:
    """Modular summary of a repo function, used at call sites instead of its body.

    apply(ex, args, kwargs) -> Val: emits `requires` obligations, havocs the frame, assumes `ensures`,
    and may raise PyExc for exceptional outcomes (via ex.st.choose). The same object is proved against
    the function's body by the property's harness.
    """

    def __init__(self, qualname, apply, doc=""):
        self.qualname, self.apply, self.doc = qualname, apply, doc


class LoopSpec:
    """Inductive invariant for the `ordinal`-th loop (source order) of a function.

    header  : fingerprint (ast.unparse of target and iterable); mismatch => function UNDECIDED
    invariant(ex, fr, k) -> z3 Bool over the current state; k = number of completed iterations
    havoc(ex, fr, k)  : replaces everything the loop may modify by fresh symbols (locals assigned in
                        the loop body are havocked automatically by kind)
    frame_check(ex, fr, snapshot) optional: extra obligations that nothing else changed
    """

    def __init__(self, header, invariant, havoc=None, name=None, snapshot=None, frame_check=None, seq=None, modifies=None, after_body=None):
        self.after_body = after_body
        self.header, self.invariant, self.havoc, self.name = header, invariant, havoc, name
        self.snapshot, self.frame_check, self.seq, self.modifies = snapshot, frame_check, seq, modifies


class Ex:
    def __init__(self, world: World, st: State, cfg: Cfg):
        self.world, self.st, self.cfg = world, st, cfg
        self.depth = 0
        self.root_fn = None
        self.inlined: set[str] = set()
        self.lib_used: set[str] = set()
        self.dropped: set[str] = set()
        from . import lib
        self.lib = lib

    # =====================================================================================
    # exceptions
    # =====================================================================================
    def make_exc(self, cls_name: str, *args) -> VRef:
        return self.st.alloc(HObj(cls_name, {"args": VTuple(list(args)), "__notes__": None}))

    def throw(self, cls_name: str, msg: str = ""):
        raise PyExc(self.make_exc(cls_name, VStr(msg)))

    def exc_class_name(self, val):
        if isinstance(val, VRef):
            c = self.st.cell(val).cls
            return c if isinstance(c, str) else c.name
        return None

    def exc_matches(self, val, handler_type: Val):
        """bool | z3 Bool: does exception `val` match `except handler_type`?"""
        names = []

        def col(t):
            if isinstance(t, VTuple):
                for x in t.items:
                    col(x)
            elif isinstance(t, VLib):
                names.append(t.name.split(".")[-1])
            elif isinstance(t, VClass):
                names.append(t.ci)
            else:
                raise Unsupported(f"except clause type {t!r}")
        col(handler_type)
        if isinstance(val, VRef):
            cell = self.st.cell(val)
            if isinstance(cell.cls, str):
                return any(isinstance(n, str) and exc_is_subclass(cell.cls, n) for n in names)
            mro = self.world.mro(cell.cls)
            for n in names:
                if isinstance(n, ClassInfo) and n in mro:
                    return True
                if isinstance(n, str):
                    for b in self.world.lib_bases(cell.cls):
                        if exc_is_subclass(b.split(".")[-1], n):
                            return True
            return False
        if isinstance(val, VSym):        # exception of unknown class raised by an opaque callee
            conds = []
            for n in names:
                if isinstance(n, ClassInfo):
                    conds.append(exc_subclass(val.t, z3.StringVal(n.name)))
                else:
                    conds.append(exc_subclass(val.t, z3.StringVal(n)))
                    p = BUILTIN_EXC_PARENT.get(n)
                    while p is not None:     # hierarchy facts for the classes mentioned
                        self.st.assume(z3.Implies(exc_subclass(val.t, z3.StringVal(n)), exc_subclass(val.t, z3.StringVal(p))))
                        n, p = p, BUILTIN_EXC_PARENT.get(p)
            return z_or(*conds)
        raise Unsupported(f"exception value {val!r}")

    # =====================================================================================
    # names
    # =====================================================================================
    def lookup(self, name: str, fr: Frame) -> Val:
        if name == "__version__":
            return VStr("<pyxel version>")      # versioneer machinery is not interpreted
        if name in self.cfg.name_overrides and not any(name in f_.locals for f_ in self._frames(fr)):
            return self.cfg.name_overrides[name]
        f = fr
        while f is not None:
            if name in f.locals:
                return f.locals[name]
            f = f.parent
        if fr.module is not None:
            r = self.world.resolve(fr.module, name)
            if r is not None:
                return self.resolved_to_val(r, name)
        return self.builtin(name)

    @staticmethod
    def _frames(fr):
        while fr is not None:
            yield fr
            fr = fr.parent

    def resolved_to_val(self, r, name) -> Val:
        if r[0] == "function":
            return VFunc(r[1])
        if r[0] == "class":
            return VClass(r[1])
        if r[0] == "assign":
            mod, expr = r[1], r[2]
            # module-level MUTABLE objects (a dict / list used as a cache, a registry) are one object for the whole
            # run: evaluated on first use and remembered in the path's state; immutable values are simply re-evaluated
            g = self.st.ghost.setdefault("GLOBALS", {})
            key = (mod.relpath, name)
            if key in g:
                return g[key]
            v = self.ev(expr, Frame(None, mod))
            if isinstance(v, VRef):
                g[key] = v
            return v
        if r[0] == "module":
            if self.world.module(r[1]) is not None:
                return VLib("repo:" + r[1])
            return VLib(self.lib.canon(r[1]))
        if r[0] == "lib":
            return VLib(self.lib.canon(r[1]))
        raise Unsupported(f"resolve {name}")

    def builtin(self, name: str) -> Val:
        if name in BUILTIN_EXC_PARENT or name in BUILTIN_TYPES:
            return VLib("builtins." + name)
        if name in self.lib.BUILTINS or ("builtins." + name) in self.cfg.lib_overrides:
            return VLib("builtins." + name)       # a builtin the unit gave a contract for (eval, ...)
        if name == "__name__":
            return VStr("module")
        raise Unsupported(f"unknown name {name!r}")

    # =====================================================================================
    # expressions
    # =====================================================================================
    def ev(self, e: ast.expr, fr: Frame) -> Val:
        m = getattr(self, "ev_" + type(e).__name__, None)
        if m is None:
            raise Unsupported(f"expression {type(e).__name__}: {ast.unparse(e)[:60]}")
        return m(e, fr)

    def ev_Constant(self, e, fr):
        c = e.value
        if c is None:
            return NONE
        if isinstance(c, bool):
            return VBool(c)
        if isinstance(c, int):
            return VInt(c)
        if isinstance(c, float):
            return VFloat(c)
        if isinstance(c, str):
            return VStr(c)
        if c is Ellipsis:
            return VLib("builtins.Ellipsis")
        raise Unsupported(f"constant {c!r}")

    def ev_Name(self, e, fr):
        return self.lookup(e.id, fr)

    def ev_Tuple(self, e, fr):
        return VTuple(self.ev_elts(e.elts, fr))

    def ev_List(self, e, fr):
        return self.st.alloc(HList(self.ev_elts(e.elts, fr)))

    def ev_elts(self, elts, fr):
        out = []
        for x in elts:
            if isinstance(x, ast.Starred):
                out.extend(self.iterate(self.ev(x.value, fr), fr))
            else:
                out.append(self.ev(x, fr))
        return out

    def ev_Set(self, e, fr):
        return VTuple(self.ev_elts(e.elts, fr))     # only used for membership tests

    def ev_Dict(self, e, fr):
        items = []
        for k, v in zip(e.keys, e.values):
            if k is None:
                for kk, vv in self.mapping_items(self.ev(v, fr), fr):
                    items = [(a, b) for a, b in items if not self.same_key(a, kk)] + [(kk, vv)]
            else:
                kk, vv = self.ev(k, fr), self.ev(v, fr)
                items = [(a, b) for a, b in items if not self.same_key(a, kk)] + [(kk, vv)]
        return self.st.alloc(HDict(items))

    def same_key(self, a, b) -> bool:
        c = self.eq(a, b)
        return self.st.branch(c) if not isinstance(c, bool) else c

    def ev_JoinedStr(self, e, fr):
        parts, vals = [], []
        for v in e.values:
            if isinstance(v, ast.Constant):
                parts.append(v.value)
                vals.append(v.value)
            else:
                val = self.ev(v.value, fr)
                vals.append(val if (v.conversion == -1 and v.format_spec is None) else None)
                parts.append(self.format_value(val, v.conversion, fr))
        # f"{key}.name.other": same structured key as key + ".name.other" (components without separator)
        if len(vals) >= 2 and isinstance(vals[0], VStr) and getattr(vals[0], "parts", None) is not None:
            sep = getattr(vals[0], "sep", ".")
            comps, ok, i = list(vals[0].parts), True, 1
            while i < len(vals) and ok:
                x = vals[i]
                if isinstance(x, str) and x.startswith(sep):
                    body = x[len(sep):]
                    pieces = body.split(sep)
                    if all(pieces):
                        comps += [VStr(q) for q in pieces]
                        i += 1
                        continue
                ok = False
            if ok:
                return self.lib.make_key(comps, sep)
        return VStr(concat_str(parts))

    def format_value(self, val, conversion, fr):
        if isinstance(val, VStr) and conversion != ord("r"):
            return val.v
        if isinstance(val, VStr):
            return concat_str(["'", val.v, "'"])
        if isinstance(val, (VInt, VBool)) and is_conc(val.v):
            return str(val.v)
        if isinstance(val, VInt):
            return z3.If(val.v >= 0, z3.IntToStr(val.v), z3.Concat(z3.StringVal("-"), z3.IntToStr(-val.v)))
        if isinstance(val, VFloat) and is_conc(val.v):
            return repr(val.v)
        if isinstance(val, VNone):
            return "None"
        if isinstance(val, VOpaque):
            h = self.cfg.lib_overrides.get(("format_" + val.kind,))
            if h is not None:
                return h(self, val)
        # any other formatted value: its text is not modelled (the event records WHICH value the text stands for)
        t = self.st.fresh_str("fmt")
        self.st.events.append(("fmt", t, val))
        return t

    def ev_UnaryOp(self, e, fr):
        v = self.ev(e.operand, fr)
        if isinstance(e.op, ast.Not):
            return VBool(z_not(self.truth(v, fr)))
        if isinstance(e.op, ast.USub):
            if isinstance(v, VOpaque) and ("neg", v.kind) in self.cfg.lib_overrides:
                return self.cfg.lib_overrides[("neg", v.kind)](self, v)
            if isinstance(v, VRef) and isinstance(self.st.cell(v), HArr):
                return self.lib.arr_unary(self, "neg", v)
            return neg(self.cfg, v)
        if isinstance(e.op, ast.UAdd):
            return v
        if isinstance(e.op, ast.Invert):
            if isinstance(v, VRef) and isinstance(self.st.cell(v), HArr):
                return self.lib.arr_unary(self, "not", v)
        raise Unsupported(f"unary {type(e.op).__name__}")

    def resolve(self, v):
        """Decide a Maybe value on the current path."""
        while isinstance(v, VMaybe):
            v = v.val if self.st.branch(v.present) else NONE
        return v

    def truth(self, v, fr=None):
        if isinstance(v, VMaybe):
            return z_and(v.present, self.truth(v.val, fr))
        if isinstance(v, VRef):
            cell = self.st.cell(v)
            if isinstance(cell, HList):
                return len(cell.items) > 0
            if isinstance(cell, HDict):
                return len(cell.items) > 0
            if isinstance(cell, HObj):
                if not isinstance(cell.cls, str):
                    for name in ("__bool__", "__len__"):
                        m = self.find_method(cell.cls, name)
                        if m is not None:
                            r = self.call(VFunc(m, v), [], {}, fr)
                            return truth(r) if name == "__bool__" else (int_of(r) != 0)
                return True
            if isinstance(cell, HArr):
                raise Unsupported("truth value of an array")
        if isinstance(v, VSym):
            return True
        if isinstance(v, VOpaque):
            if v.kind in ("logger",):
                return True
            h = self.cfg.lib_overrides.get(("truth", v.kind))
            if h is not None:
                return h(self, v)
            raise Unsupported(f"truth of opaque {v.kind}")
        return truth(v)

    def ev_BoolOp(self, e, fr):
        is_and = isinstance(e.op, ast.And)
        last = None
        for i, sub in enumerate(e.values):
            last = self.ev(sub, fr)
            if i == len(e.values) - 1:
                return last
            t = self.truth(last, fr)
            go_on = self.st.branch(t if is_and else z_not(t))
            if not go_on:
                return last
        return last

    def ev_IfExp(self, e, fr):
        if self.cfg.merge_optional and isinstance(e.orelse, ast.Constant) and e.orelse.value is None:
            # `X if c else None` without a path split: the value is Maybe(c, X), provided evaluating X needs no
            # decision and cannot raise (otherwise fall back to the ordinary two-path treatment)
            c = self.truth(self.ev(e.test, fr), fr)
            if not isinstance(c, bool):
                self.st.no_branch = getattr(self.st, "no_branch", 0) + 1
                try:
                    val = self.ev(e.body, fr)
                    return VMaybe(c, val)
                except (NeedBranch, PyExc):
                    pass
                finally:
                    self.st.no_branch -= 1
            if self.st.branch(c):
                return self.ev(e.body, fr)
            return self.ev(e.orelse, fr)
        if self.st.branch(self.truth(self.ev(e.test, fr), fr)):
            return self.ev(e.body, fr)
        return self.ev(e.orelse, fr)

    def ev_NamedExpr(self, e, fr):
        v = self.ev(e.value, fr)
        fr.locals[e.target.id] = v
        return v

    def ev_Lambda(self, e, fr):
        fn = ast.FunctionDef(name="<lambda>", args=e.args, body=[ast.Return(value=e.body)], decorator_list=[],
                             lineno=e.lineno, col_offset=e.col_offset)
        fi = FunctionInfo(fr.module, fn, None)
        return VFunc(fi, closure=fr)

    def ev_Compare(self, e, fr):
        left = self.ev(e.left, fr)
        result = True
        for i, (op, rhs) in enumerate(zip(e.ops, e.comparators)):
            right = self.ev(rhs, fr)
            c = self.compare(op, left, right, fr)
            if isinstance(c, Val):     # array comparison yields an array
                if len(e.ops) != 1:
                    raise Unsupported("chained array comparison")
                return c
            result = z_and(result, c)
            if i < len(e.ops) - 1:
                # short-circuit: the next operand is evaluated only if this comparison holds
                if not self.st.branch(c):
                    return VBool(False)
            left = right
        return VBool(result)

    def compare(self, op, a, b, fr):
        if isinstance(op, ast.Is):
            return self.identical(a, b)
        if isinstance(op, ast.IsNot):
            return z_not(self.identical(a, b))
        if isinstance(op, ast.In):
            return self.contains(b, a, fr)
        if isinstance(op, ast.NotIn):
            return z_not(self.contains(b, a, fr))
        if isinstance(op, (ast.Lt, ast.LtE, ast.Gt, ast.GtE)):
            a, b = self.resolve(a), self.resolve(b)      # an optional value is decided on this path before it is ordered
        if self.is_arr(a) or self.is_arr(b):
            return self.lib.arr_compare(self, CMP[type(op)], a, b)
        if isinstance(a, VOpaque) or isinstance(b, VOpaque):
            h = self.cfg.lib_overrides.get(("compare", (a if isinstance(a, VOpaque) else b).kind))
            if h is not None:
                return h(self, CMP[type(op)], a, b, fr)
        if isinstance(op, ast.Eq):
            return self.eq(a, b, fr)
        if isinstance(op, ast.NotEq):
            return z_not(self.eq(a, b, fr))
        if is_num(a) and is_num(b):
            return num_compare(CMP[type(op)], a, b)
        if isinstance(a, VStr) and isinstance(b, VStr):
            if is_conc(a.v) and is_conc(b.v):
                return {"lt": a.v < b.v, "le": a.v <= b.v, "gt": a.v > b.v, "ge": a.v >= b.v}[CMP[type(op)]]
            x, y = z_str(a.v), z_str(b.v)
            return {"lt": x < y, "le": x <= y, "gt": y < x, "ge": y <= x}[CMP[type(op)]]
        if isinstance(a, VTuple) and isinstance(b, VTuple):
            # lexicographic comparison decided on the concrete numeric prefix (sys.version_info >= (3, 11) ...)
            n = min(len(a.items), len(b.items))
            if all(isinstance(x, (VInt, VFloat, VBool, VStr)) and is_conc(x.v) for x in a.items[:n] + b.items[:n]):
                ta, tb = tuple(x.v for x in a.items[:n]), tuple(x.v for x in b.items[:n])
                if ta != tb or len(a.items) == len(b.items):
                    if ta == tb:
                        return CMP[type(op)] in ("le", "ge")
                    return {"lt": ta < tb, "le": ta <= tb, "gt": ta > tb, "ge": ta >= tb}[CMP[type(op)]]
                longer_a = len(a.items) > len(b.items)
                return {"lt": not longer_a, "le": not longer_a, "gt": longer_a, "ge": longer_a}[CMP[type(op)]]
            raise Unsupported("ordering comparison of symbolic tuples")
        # ordering comparison between non-numbers: TypeError in Python 3
        self.throw("TypeError", "'<' not supported between instances")

    def is_arr(self, v) -> bool:
        return isinstance(v, VRef) and isinstance(self.st.cell(v), HArr)

    def identical(self, a, b):
        if isinstance(a, VMaybe) and isinstance(b, VNone):
            return z_not(a.present)
        if isinstance(b, VMaybe) and isinstance(a, VNone):
            return z_not(b.present)
        a, b = self.resolve(a), self.resolve(b)
        if isinstance(a, VNone) or isinstance(b, VNone):
            if isinstance(a, VNone) and isinstance(b, VNone):
                return True
            return False
        if isinstance(a, VRef) and isinstance(b, VRef):
            return a.addr == b.addr
        if isinstance(a, VSym) and isinstance(b, VSym):
            return a.t == b.t
        if isinstance(a, VBool) and isinstance(b, VBool):
            return z_bool(a.v) == z_bool(b.v) if not (is_conc(a.v) and is_conc(b.v)) else a.v == b.v
        if isinstance(a, VStr) and isinstance(b, VStr) and is_conc(a.v) and is_conc(b.v):
            return a.v == b.v           # Enum members are modelled by their values (`x is Enum.member`)
        if isinstance(a, VClass) and isinstance(b, VClass):
            return a.ci is b.ci
        if isinstance(a, VLib) and isinstance(b, VLib):
            return a.name == b.name
        if isinstance(a, VOpaque) and isinstance(b, VOpaque) and a is b:
            return True                 # one boundary object reached along two ways
        if isinstance(a, VOpaque) and isinstance(b, VOpaque) and a.t is not None and b.t is not None:
            return a.t == b.t
        if type(a) is not type(b):
            return False
        if isinstance(a, VFunc):
            return a.fi is b.fi
        raise Unsupported(f"identity of {a!r} and {b!r}")

    def eq(self, a, b, fr=None):
        """Python == as bool | z3 Bool."""
        a, b = self.resolve(a), self.resolve(b)
        if isinstance(a, VNone) or isinstance(b, VNone):
            if isinstance(a, VNone) and isinstance(b, VNone):
                return True
            other = b if isinstance(a, VNone) else a
            if isinstance(other, VRef) and isinstance(self.st.cell(other), HObj) and not isinstance(self.st.cell(other).cls, str):
                m = self.find_method(self.st.cell(other).cls, "__eq__")
                if m is not None:
                    return self.truth(self.call(VFunc(m, other), [NONE], {}, fr), fr)
            return False
        if is_num(a) and is_num(b):
            return num_compare("eq", a, b)
        if isinstance(a, VStr) and isinstance(b, VStr):
            return str_eq(a, b)
        if isinstance(a, VTuple) and isinstance(b, VTuple):
            if len(a.items) != len(b.items):
                return False
            return z_and(*[self.eq(x, y, fr) for x, y in zip(a.items, b.items)])
        if isinstance(a, VRef) and isinstance(b, VRef):
            ca, cb = self.st.cell(a), self.st.cell(b)
            if isinstance(ca, HList) and isinstance(cb, HList):
                if len(ca.items) != len(cb.items):
                    return False
                return z_and(*[self.eq(x, y, fr) for x, y in zip(ca.items, cb.items)])
            if isinstance(ca, HObj) and not isinstance(ca.cls, str):
                m = self.find_method(ca.cls, "__eq__")
                if m is not None:
                    return self.truth(self.call(VFunc(m, a), [b], {}, fr), fr)
            if isinstance(ca, HDict) and isinstance(cb, HDict):
                if len(ca.items) != len(cb.items):
                    return False
                conds = []
                for k, v in ca.items:
                    hit = [vv for kk, vv in cb.items if self.eq(k, kk, fr) is True]
                    if not hit:
                        raise Unsupported("dict equality with symbolic keys")
                    conds.append(self.eq(v, hit[0], fr))
                return z_and(*conds)
            return a.addr == b.addr
        if isinstance(a, VRef) and isinstance(self.st.cell(a), HObj) and not isinstance(self.st.cell(a).cls, str):
            m = self.find_method(self.st.cell(a).cls, "__eq__")
            if m is not None:
                return self.truth(self.call(VFunc(m, a), [b], {}, fr), fr)
        if isinstance(a, VDtype) or isinstance(b, VDtype):
            return self.lib.dtype_eq(self, a, b)
        if isinstance(a, VSym) and isinstance(b, VSym):
            return a.t == b.t
        if isinstance(a, (VClass, VLib, VFunc)) and isinstance(b, (VClass, VLib, VFunc)):
            return self.identical(a, b) if type(a) is type(b) else False
        if isinstance(a, VTuple) and isinstance(b, VRef) or isinstance(a, VRef) and isinstance(b, VTuple):
            return False      # tuple == list is False
        if isinstance(a, VOpaque) or isinstance(b, VOpaque):
            h = self.cfg.lib_overrides.get(("eq", (a if isinstance(a, VOpaque) else b).kind))
            if h is not None:
                return h(self, a, b, fr)
            raise Unsupported("== on boundary object")
        if isinstance(a, VSeq) or isinstance(b, VSeq):
            raise Unsupported("== on symbolic sequence")
        return False          # values of different kinds are unequal

    def contains(self, container, item, fr):
        if isinstance(container, VTuple):
            return z_or(*[self.eq(item, x, fr) for x in container.items])
        if isinstance(container, VRef):
            cell = self.st.cell(container)
            if isinstance(cell, HList):
                return z_or(*[self.eq(item, x, fr) for x in cell.items])
            if isinstance(cell, HDict):
                return z_or(*[self.eq(item, k, fr) for k, _ in cell.items])
            if isinstance(cell, HObj) and not isinstance(cell.cls, str):
                m = self.find_method(cell.cls, "__contains__")
                if m is not None:
                    return self.truth(self.call(VFunc(m, container), [item], {}, fr), fr)
                if "MutableMapping" in " ".join(self.world.lib_bases(cell.cls)) or "Mapping" in " ".join(self.world.lib_bases(cell.cls)):
                    # Mapping.__contains__: try self[key] except KeyError
                    gi = self.find_method(cell.cls, "__getitem__")
                    try:
                        self.call(VFunc(gi, container), [item], {}, fr)
                        return True
                    except PyExc as pe:
                        if self.exc_matches(pe.val, VLib("builtins.KeyError")) is True:
                            return False
                        raise
        if isinstance(container, VStr) and isinstance(item, VStr):
            if is_conc(container.v) and is_conc(item.v):
                return item.v in container.v
            return z3.Contains(z_str(container.v), z_str(item.v))
        if isinstance(container, VRange):
            i = int_of(item)
            return z_and(z_int(i) >= z_int(int_of(container.lo)), z_int(i) < z_int(int_of(container.hi)))
        if isinstance(container, VSeq) and container.term is not None and isinstance(item, (VStr, VInt)):
            return z3.Contains(container.term, z3.Unit(z_str(item.v) if isinstance(item, VStr) else z_int(item.v)))
        if isinstance(container, (VOpaque, VSym)):
            return self.lib.opaque_contains(self, container, item)
        raise Unsupported(f"'in' on {container!r}")

    def ev_BinOp(self, e, fr):
        a, b = self.ev(e.left, fr), self.ev(e.right, fr)
        return self.binop(e.op, a, b, fr)

    def binop(self, op, a, b, fr):
        a, b = self.resolve(a), self.resolve(b)      # an optional operand is decided on this path before it is used
        for x in (a, b):
            if isinstance(x, VOpaque) and x.kind == "qty":      # value-carrying boundary object (astropy Quantity contract)
                return self.lib.opaque_binop(self, op, a, b) if not (isinstance(a, VOpaque) and a.kind != "qty") else self.cfg.lib_overrides[("binop", "qty")](self, op, a, b)
        if self.is_arr(a) or self.is_arr(b):
            return self.lib.arr_binop(self, op, a, b)
        if is_num(a) and is_num(b):
            if isinstance(op, (ast.Div, ast.FloorDiv, ast.Mod)):
                if self.st.branch(is_zero(b)):
                    self.throw("ZeroDivisionError", "division by zero")
            return arith(self.cfg, op, a, b)
        if isinstance(op, ast.Add):
            if isinstance(a, VStr) and isinstance(b, VStr):
                pa = getattr(a, "parts", None)
                if pa is not None and is_conc(b.v) and b.v.startswith(".") and "." not in b.v[1:]:
                    return self.lib.make_key(pa + [VStr(b.v[1:])], getattr(a, "sep", "."))
                return VStr(concat_str([a.v, b.v]))
            if isinstance(a, VTuple) and isinstance(b, VTuple):
                return VTuple(a.items + b.items)
            la, lb = self.try_list(a), self.try_list(b)
            if la is not None and lb is not None and isinstance(a, VRef) and isinstance(b, VRef):
                return self.st.alloc(HList(la + lb))
        if isinstance(op, ast.Mult):
            if isinstance(a, VStr) and isinstance(b, VInt) and is_conc(a.v) and is_conc(b.v):
                return VStr(a.v * b.v)
            la = self.try_list(a)
            if la is not None and isinstance(b, VInt) and is_conc(b.v):
                return self.st.alloc(HList(la * b.v)) if isinstance(a, VRef) else VTuple(la * b.v)
            if la is not None and len(la) == 1 and isinstance(b, VInt) and isinstance(a, VRef):
                # [x] * n with a symbolic n: n copies of x (an empty list for n <= 0)
                item = la[0]
                return VSeq(z3.If(z_int(b.v) > 0, z_int(b.v), 0), lambda i, item=item: item, None, "list")
        if isinstance(op, ast.BitOr):
            if isinstance(a, (VLib, VClass)) and isinstance(b, (VLib, VClass, VNone)):
                return VTuple([a, b])      # `int | float` in isinstance
            if isinstance(a, VTuple) and isinstance(b, (VLib, VClass, VNone)):
                return VTuple(a.items + [b])
            da, db = self.try_dict(a), self.try_dict(b)
            if da is not None and db is not None:
                items = list(da)
                for k, v in db:
                    items = [(kk, vv) for kk, vv in items if not self.same_key(kk, k)] + [(k, v)]
                return self.st.alloc(HDict(items))
        if isinstance(op, ast.Mod) and isinstance(a, VStr):
            return VStr(self.st.fresh_str("fmt"))
        if isinstance(a, (VOpaque,)) or isinstance(b, (VOpaque,)):
            return self.lib.opaque_binop(self, op, a, b)
        if isinstance(a, VRef) and isinstance(self.st.cell(a), HObj) and not isinstance(self.st.cell(a).cls, str):
            name = {ast.Add: "__add__", ast.Sub: "__sub__", ast.Mult: "__mul__", ast.Div: "__truediv__"}.get(type(op))
            m = self.find_method(self.st.cell(a).cls, name) if name else None
            if m is not None:
                return self.call(VFunc(m, a), [b], {}, fr)
        if isinstance(a, VNone) or isinstance(b, VNone) or isinstance(a, VStr) or isinstance(b, VStr):
            self.throw("TypeError", "unsupported operand type(s)")
        raise Unsupported(f"binop {type(op).__name__} on {a!r}, {b!r}")

    def try_list(self, v):
        if isinstance(v, VTuple):
            return list(v.items)
        if isinstance(v, VRef) and isinstance(self.st.cell(v), HList):
            return list(self.st.cell(v).items)
        return None

    def try_dict(self, v):
        if isinstance(v, VRef) and isinstance(self.st.cell(v), HDict):
            return list(self.st.cell(v).items)
        return None

    # ---- attribute access ---------------------------------------------------------------
    def ev_Attribute(self, e, fr):
        obj = self.ev(e.value, fr)
        return self.getattr(obj, e.attr, fr)

    def find_in_mro(self, ci: ClassInfo, name: str):
        for c in self.world.mro(ci):
            if name in c.getters:
                return ("getter", c.getters[name], c)
            if name in c.methods:
                return ("method", c.methods[name], c)
            if name in c.classvars:
                return ("classvar", c.classvars[name], c)
        return None

    def find_method(self, ci: ClassInfo, name: str):
        for c in self.world.mro(ci):
            if name in c.methods:
                return c.methods[name]
        return None

    def find_setter(self, ci: ClassInfo, name: str):
        for c in self.world.mro(ci):
            if name in c.setters:
                return c.setters[name]
            if name in c.getters:
                return "readonly"
        return None

    def getattr(self, obj: Val, name: str, fr, default=None) -> Val:
        obj = self.resolve(obj)
        if isinstance(obj, VRef):
            cell = self.st.cell(obj)
            if isinstance(cell, HObj):
                if isinstance(cell.cls, str):      # builtin exception instance
                    if name in cell.fields:
                        v = cell.fields[name]
                        if name == "__notes__" and v is None:
                            self.throw("AttributeError", "__notes__")
                        return v
                    if name == "add_note":
                        return VLib("exc.add_note", obj)
                    if name == "__class__":
                        return VLib("builtins." + cell.cls)
                    self.throw("AttributeError", name)
                ci = cell.cls
                found = self.find_in_mro(ci, name)
                if found and found[0] == "getter":
                    return self.call(VFunc(found[1], obj), [], {}, fr)
                if name in cell.fields:
                    return cell.fields[name]
                if found and found[0] == "method":
                    fi = found[1]
                    if fi.kind == "static":
                        return VFunc(fi)
                    if fi.kind == "classmethod":
                        return VFunc(fi, VClass(ci))
                    return VFunc(fi, obj)
                if found and found[0] == "classvar":
                    return self.ev(found[1], Frame(None, found[2].module, cls=found[2]))
                if name == "__class__":
                    return VClass(ci)
                if name == "__dict__":
                    return VOpaque("objdict", None, {"of": obj})        # live view of the instance namespace
                ga = self.find_method(ci, "__getattr__")
                if ga is not None:
                    return self.call(VFunc(ga, obj), [VStr(name)], {}, fr)
                lb = self.lib.lib_base_attr(self, obj, ci, name)
                if lb is not None:
                    return lb
                self.throw("AttributeError", f"no attribute {name}")
            return self.lib.cell_attr(self, obj, cell, name, fr)
        if isinstance(obj, VSym):
            return self.sym_getattr(obj, name, fr)
        if isinstance(obj, VClass):
            ci = obj.ci
            if name == "__name__":
                return VStr(ci.name)
            found = self.find_in_mro(ci, name)
            if found and found[0] == "method":
                fi = found[1]
                if fi.kind == "classmethod":
                    return VFunc(fi, obj)
                return VFunc(fi)
            if found and found[0] == "classvar":
                return self.ev(found[1], Frame(None, found[2].module, cls=found[2]))
            if name == "__new__":
                return VLib("object.__new__", obj)      # cls.__new__(cls): a bare instance without fields (no user __new__ in the MRO)
            self.throw("AttributeError", name)
        if isinstance(obj, VLib):
            if obj.name.startswith("repo:"):
                mi = self.world.module(obj.name[5:])
                r = self.world.resolve(mi, name)
                if r is None:
                    sub = self.world.module(obj.name[5:] + "." + name)
                    if sub is not None:
                        return VLib("repo:" + sub.name)
                    self.throw("AttributeError", name)
                return self.resolved_to_val(r, name)
            if name == "__version__":
                # the version text of an installed library is not known to the contracts: a symbolic string
                return VStr(z3.String(obj.name.replace(".", "_") + "_version"))
            return self.lib.lib_attr(self, obj, name)
        if isinstance(obj, VFunc):
            if name == "__name__":
                return VStr(obj.fi.name)
            if name == "__module__":
                return VStr(obj.fi.module.name)
        return self.lib.val_attr(self, obj, name, fr)

    def sym_field_array(self, clsname: str, field: str):
        key = (clsname, field)
        if key not in self.st.symfields:
            desc = self.cfg.field_types.get(key)
            if desc is None:
                raise Unsupported(f"field {clsname}.{field} of a symbolic object has no declared type")
            sort = {"bool": z3.BoolSort(), "int": z3.IntSort(), "str": z3.StringSort(), "real": z3.RealSort()}.get(
                desc if isinstance(desc, str) else "int", z3.IntSort())
            self.st.symfields[key] = z3.Array(f"H_{clsname}_{field}", z3.IntSort(), sort)
        return self.st.symfields[key]

    def sym_wrap(self, desc, term):
        if desc == "bool":
            return VBool(term)
        if desc == "int":
            return VInt(term)
        if desc == "str":
            return VStr(term)
        if desc == "real":
            return VFloat(term)
        if isinstance(desc, tuple) and desc[0] == "obj":
            return VSym(desc[1], term)
        if isinstance(desc, tuple) and desc[0] == "opaque":
            return VOpaque(desc[1], term)
        if isinstance(desc, tuple) and desc[0] == "custom":
            return desc[1](self, term)
        raise Unsupported(f"field type {desc!r}")

    def cls_name(self, c):
        return c if isinstance(c, str) else c.name

    def sym_getattr(self, obj: VSym, name: str, fr):
        ci = obj.cls
        cname = self.cls_name(ci)
        if isinstance(ci, ClassInfo):
            found = self.find_in_mro(ci, name)
            if found and found[0] == "getter":
                return self.call(VFunc(found[1], obj), [], {}, fr)
            if (cname, name) in self.cfg.field_types:
                arr = self.sym_field_array(cname, name)
                return self.sym_wrap(self.cfg.field_types[(cname, name)], z3.Select(arr, obj.t))
            if found and found[0] == "method":
                fi = found[1]
                if fi.kind == "static":
                    return VFunc(fi)
                return VFunc(fi, obj if fi.kind != "classmethod" else VClass(ci))
            if found and found[0] == "classvar":
                return self.ev(found[1], Frame(None, found[2].module, cls=found[2]))
            if name == "__class__":
                return VClass(ci)
        if (cname, name) in self.cfg.field_types:
            arr = self.sym_field_array(cname, name)
            return self.sym_wrap(self.cfg.field_types[(cname, name)], z3.Select(arr, obj.t))
        return self.lib.sym_attr(self, obj, name, fr)

    def setattr(self, obj: Val, name: str, val: Val, fr):
        obj = self.resolve(obj)
        if isinstance(obj, VRef):
            cell = self.st.cell(obj)
            if isinstance(cell, HObj):
                if not isinstance(cell.cls, str):
                    s = self.find_setter(cell.cls, name)
                    if s == "readonly":
                        self.throw("AttributeError", f"property {name} has no setter")
                    if s is not None:
                        self.call(VFunc(s, obj), [val], {}, fr)
                        return
                    sa = self.find_method(cell.cls, "__setattr__")
                    if sa is not None and not getattr(fr, "in_super_setattr", False):
                        self.call(VFunc(sa, obj), [VStr(name), val], {}, fr)
                        return
                cell.fields[name] = val
                return
        if isinstance(obj, VSym):
            cname = self.cls_name(obj.cls)
            if isinstance(obj.cls, ClassInfo):
                s = self.find_setter(obj.cls, name)
                if s == "readonly":
                    self.throw("AttributeError", f"property {name} has no setter")
                if s is not None:
                    self.call(VFunc(s, obj), [val], {}, fr)
                    return
            if (cname, name) in self.cfg.field_types:
                arr = self.sym_field_array(cname, name)
                self.st.symfields[(cname, name)] = z3.Store(arr, obj.t, self.sym_unwrap(self.cfg.field_types[(cname, name)], val))
                return
            return self.lib.sym_setattr(self, obj, name, val, fr)
        if isinstance(obj, VOpaque):
            return self.lib.opaque_setattr(self, obj, name, val, fr)
        if isinstance(obj, VNone):
            self.throw("AttributeError", f"'NoneType' object has no attribute {name!r}")
        raise Unsupported(f"setattr on {obj!r}.{name}")

    def sym_unwrap(self, desc, val):
        if desc == "bool" and isinstance(val, VBool):
            return z_bool(val.v)
        if desc == "int" and isinstance(val, (VInt, VBool)):
            return z_int(as_int_term(val))
        if desc == "str" and isinstance(val, VStr):
            return z_str(val.v)
        if desc == "real" and is_num(val):
            return to_real(val)
        if isinstance(desc, tuple) and desc[0] in ("obj", "opaque") and isinstance(val, (VSym, VOpaque)):
            return val.t
        raise Unsupported(f"store of {val!r} into field of type {desc!r}")

    # ---- subscripts ---------------------------------------------------------------------
    def ev_Slice(self, e, fr):
        return VSlice(self.ev(e.lower, fr) if e.lower else NONE, self.ev(e.upper, fr) if e.upper else NONE,
                      self.ev(e.step, fr) if e.step else NONE)

    def ev_Subscript(self, e, fr):
        obj = self.ev(e.value, fr)
        idx = self.ev(e.slice, fr)
        return self.getitem(obj, idx, fr)

    def norm_index(self, i, n, what="index"):
        """Python index normalisation on a sequence of concrete length n; raises IndexError."""
        if is_conc(i):
            if not -n <= i < n:
                self.throw("IndexError", f"{what} out of range")
            return i % n if n else 0
        for k in range(-n, n):
            pass
        return None

    def getitem(self, obj, idx, fr):
        obj, idx = self.resolve(obj), self.resolve(idx)
        items = self.try_list(obj)
        if items is not None:
            if isinstance(idx, VSlice):
                lo, hi, step = (None if isinstance(x, VNone) else int_of(x) for x in (idx.lo, idx.hi, idx.step))
                if all(x is None or is_conc(x) for x in (lo, hi, step)):
                    r = items[slice(lo, hi, step)]
                    return VTuple(r) if isinstance(obj, VTuple) else self.st.alloc(HList(r))
                raise Unsupported("symbolic slice of a concrete list")
            i = int_of(idx, "list index")
            n = len(items)
            if is_conc(i):
                if not -n <= i < n:
                    self.throw("IndexError", "list index out of range")
                return items[i]
            if not self.st.branch(z3.And(i >= -n, i < n)):
                self.throw("IndexError", "list index out of range")
            k = self.st.choose([z3.Or(i == j, i == j - n) for j in range(n)])
            return items[k]
        if isinstance(obj, VRef):
            cell = self.st.cell(obj)
            if isinstance(cell, HDict):
                for k, v in cell.items:
                    if self.same_key(k, idx):
                        return v
                if getattr(cell, "default_factory", None) is not None:      # collections.defaultdict: missing key -> factory()
                    v = self.call(cell.default_factory, [], {}, fr)
                    cell.items.append((idx, v))
                    return v
                raise PyExc(self.make_exc("KeyError", idx))
            if isinstance(cell, HArr):
                return self.lib.arr_getitem(self, obj, idx)
            if isinstance(cell, HObj) and not isinstance(cell.cls, str):
                m = self.find_method(cell.cls, "__getitem__")
                if m is not None:
                    return self.call(VFunc(m, obj), [idx], {}, fr)
        if isinstance(obj, VSeq):
            if isinstance(idx, VSlice):
                return self.lib.seq_slice(self, obj, idx)
            i = z_int(int_of(idx, "sequence index"))
            if not self.st.branch(z3.And(i >= -obj.n, i < obj.n)):
                self.throw("IndexError", "index out of range")
            return obj.get(z3.If(i >= 0, i, i + obj.n))
        if isinstance(obj, VStr):
            return self.lib.str_getitem(self, obj, idx)
        if isinstance(obj, VRange) and not isinstance(idx, VSlice):
            i = int_of(idx)
            lo, hi = int_of(obj.lo), int_of(obj.hi)
            if is_conc(i) and is_conc(lo) and is_conc(hi):
                return VInt(range(lo, hi)[i])
            n = z_int(hi) - z_int(lo)
            if not self.st.branch(z3.And(z_int(i) >= -n, z_int(i) < n)):
                self.throw("IndexError", "range index out of range")
            return VInt(z3.If(z_int(i) >= 0, z_int(lo) + i, z_int(hi) + i))
        if isinstance(obj, (VLib, VClass)):
            return obj         # typing subscripts such as Sequence[int]
        if isinstance(obj, (VOpaque, VSym)):
            return self.lib.opaque_getitem(self, obj, idx, fr)
        raise Unsupported(f"subscript on {obj!r}")

    def setitem(self, obj, idx, val, fr):
        if isinstance(obj, VRef):
            cell = self.st.cell(obj)
            if isinstance(cell, HList):
                i = int_of(idx)
                n = len(cell.items)
                if is_conc(i):
                    if not -n <= i < n:
                        self.throw("IndexError", "list assignment index out of range")
                    cell.items[i] = val
                    return
                if not self.st.branch(z3.And(i >= -n, i < n)):
                    self.throw("IndexError", "list assignment index out of range")
                k = self.st.choose([z3.Or(i == j, i == j - n) for j in range(n)])
                cell.items[k] = val
                return
            if isinstance(cell, HDict):
                for j, (k, v) in enumerate(cell.items):
                    if self.same_key(k, idx):
                        cell.items[j] = (k, val)
                        return
                cell.items.append((idx, val))
                return
            if isinstance(cell, HArr):
                return self.lib.arr_setitem(self, obj, idx, val)
            if isinstance(cell, HObj) and not isinstance(cell.cls, str):
                m = self.find_method(cell.cls, "__setitem__")
                if m is not None:
                    self.call(VFunc(m, obj), [idx, val], {}, fr)
                    return
        if isinstance(obj, (VOpaque, VSym)):
            return self.lib.opaque_setitem(self, obj, idx, val, fr)
        if isinstance(obj, VTuple):
            self.throw("TypeError", "'tuple' object does not support item assignment")
        raise Unsupported(f"item assignment on {obj!r}")

    # ---- comprehensions -----------------------------------------------------------------
    def ev_ListComp(self, e, fr):
        return self.st.alloc(HList(self.comp(e.elt, e.generators, fr)))

    def ev_GeneratorExp(self, e, fr):
        return self.st.alloc(HList(self.comp(e.elt, e.generators, fr)))

    def ev_SetComp(self, e, fr):
        return VTuple(self.comp(e.elt, e.generators, fr))

    def ev_DictComp(self, e, fr):
        pairs = self.comp(ast.Tuple(elts=[e.key, e.value], ctx=ast.Load()), e.generators, fr)
        items = []
        for p in pairs:
            k, v = p.items
            items = [(a, b) for a, b in items if not self.same_key(a, k)] + [(k, v)]
        return self.st.alloc(HDict(items))

    def comp(self, elt, gens, fr):
        inner = Frame(fr.fi, fr.module, {}, parent=fr, cls=fr.cls)
        out = []

        def rec(gi):
            if gi == len(gens):
                out.append(self.ev(elt, inner))
                return
            g = gens[gi]
            it = self.ev(g.iter, inner if gi else fr)
            if isinstance(it, VSeq):
                raise Unsupported("comprehension over a symbolic-length sequence")
            for x in self.iterate(it, fr):
                self.assign(g.target, x, inner)
                if all(self.st.branch(self.truth(self.ev(c, inner), inner)) for c in g.ifs):
                    rec(gi + 1)
        rec(0)
        return out

    # ---- iteration ----------------------------------------------------------------------
    def iterate(self, v, fr) -> list:
        """Concrete-length iteration: list of element Vals (raises Unsupported for symbolic length)."""
        v = self.resolve(v)
        items = self.try_list(v)
        if items is not None:
            return items
        if isinstance(v, VRange):
            lo, hi = int_of(v.lo), int_of(v.hi)
            step = 1 if v.step is None else int_of(v.step)
            if is_conc(lo) and is_conc(hi) and is_conc(step):
                if len(range(lo, hi, step)) > self.cfg.max_unroll:
                    raise Unsupported("range too long to unroll")
                return [VInt(i) for i in range(lo, hi, step)]
            raise Unsupported("iteration over a symbolic range needs a loop invariant")
        if isinstance(v, VRef):
            cell = self.st.cell(v)
            if isinstance(cell, HDict):
                return [k for k, _ in cell.items]
            if isinstance(cell, HObj) and not isinstance(cell.cls, str):
                m = self.find_method(cell.cls, "__iter__")
                if m is not None:
                    return self.iterate(self.call(VFunc(m, v), [], {}, fr), fr)
            if isinstance(cell, HArr):
                return self.lib.arr_iterate(self, v)
        if isinstance(v, VStr) and is_conc(v.v):
            return [VStr(c) for c in v.v]
        if isinstance(v, VSym) and isinstance(v.cls, ClassInfo):
            m = self.find_method(v.cls, "__iter__")
            if m is not None:
                return self.iterate(self.call(VFunc(m, v), [], {}, fr), fr)
        raise Unsupported(f"iteration over {v!r}")

    def mapping_items(self, v, fr):
        d = self.try_dict(v)
        if d is not None:
            return d
        if isinstance(v, VRef) and isinstance(self.st.cell(v), HObj) and not isinstance(self.st.cell(v).cls, str):
            ci = self.st.cell(v).cls
            keys_m = self.find_method(ci, "keys")
            keys = self.iterate(self.call(VFunc(keys_m, v), [], {}, fr), fr) if keys_m else self.iterate(v, fr)
            gi = self.find_method(ci, "__getitem__")
            return [(k, self.call(VFunc(gi, v), [k], {}, fr)) for k in keys]
        raise Unsupported(f"** / mapping items of {v!r}")

    # =====================================================================================
    # calls
    # =====================================================================================
    def ev_Call(self, e, fr):
        # super()
        if isinstance(e.func, ast.Attribute) and isinstance(e.func.value, ast.Call) and \
                isinstance(e.func.value.func, ast.Name) and e.func.value.func.id == "super":
            return self.super_call(e, fr)
        f = self.ev(e.func, fr)
        args = []
        for a in e.args:
            if isinstance(a, ast.Starred):
                args.extend(self.iterate(self.ev(a.value, fr), fr))
            else:
                args.append(self.ev(a, fr))
        kwargs = {}
        for k in e.keywords:
            if k.arg is None:
                for kk, vv in self.mapping_items(self.ev(k.value, fr), fr):
                    if not (isinstance(kk, VStr) and is_conc(kk.v)):
                        return self.lib.call_symbolic_kwargs(self, f, args, kwargs, self.ev(k.value, fr), fr)
                    kwargs[kk.v] = vv
            else:
                kwargs[k.arg] = self.ev(k.value, fr)
        return self.call(f, args, kwargs, fr, node=e)

    def super_call(self, e, fr):
        name = e.func.attr
        f = fr
        while f is not None and f.cls is None:
            f = f.parent
        if f is None or f.self_val is None:
            raise Unsupported("super() outside a method")
        args = [self.ev(a, fr) for a in e.args]
        kwargs = {k.arg: self.ev(k.value, fr) for k in e.keywords}
        mro = self.world.mro(self.obj_class(f.self_val)) if self.obj_class(f.self_val) is not None else [f.cls]
        idx = mro.index(f.cls) if f.cls in mro else 0
        for c in mro[idx + 1:]:
            if name in c.methods:
                return self.call(VFunc(c.methods[name], f.self_val), args, kwargs, fr)
        # falls through to object / a library base
        if name == "__setattr__":
            cell = self.st.cell(f.self_val)
            cell.fields[args[0].v] = args[1]
            return NONE
        if name == "__init__":
            return NONE
        return self.lib.super_lib_call(self, f.self_val, f.cls, name, args, kwargs, fr)

    def obj_class(self, v):
        if isinstance(v, VRef):
            c = self.st.cell(v)
            return c.cls if isinstance(c, HObj) and not isinstance(c.cls, str) else None
        if isinstance(v, VSym) and isinstance(v.cls, ClassInfo):
            return v.cls
        return None

    def call(self, f: Val, args, kwargs, fr, node=None) -> Val:
        f = self.resolve(f)
        if isinstance(f, VFunc):
            return self.call_function(f, args, kwargs, fr)
        if isinstance(f, VClass):
            return self.instantiate(f.ci, args, kwargs, fr)
        if isinstance(f, VLib):
            args = [self.resolve(a) for a in args]
            kwargs = {k: self.resolve(v) for k, v in kwargs.items()}
            h = self.cfg.lib_overrides.get(f.name)
            if h is not None:
                return h(self, f, args, kwargs, fr)
            return self.lib.call(self, f, args, kwargs, fr)
        if isinstance(f, VRef):
            cell = self.st.cell(f)
            if isinstance(cell, HObj) and not isinstance(cell.cls, str):
                m = self.find_method(cell.cls, "__call__")
                if m is not None:
                    return self.call_function(VFunc(m, f), args, kwargs, fr)
        if isinstance(f, VSym) and isinstance(f.cls, ClassInfo):
            m = self.find_method(f.cls, "__call__")
            if m is not None:
                return self.call_function(VFunc(m, f), args, kwargs, fr)
        if isinstance(f, (VOpaque, VSym)):
            return self.lib.call_opaque(self, f, args, kwargs, fr)
        if isinstance(f, VNone):
            self.throw("TypeError", "'NoneType' object is not callable")
        raise Unsupported(f"call of {f!r}")

    def instantiate(self, ci: ClassInfo, args, kwargs, fr):
        libb = self.world.lib_bases(ci)
        if any(b.split(".")[-1] == "Enum" for b in libb):
            # Enum(value): the member whose value equals the argument (members are modelled by their values)
            members = [self.ev(e, Frame(None, ci.module, cls=ci)) for e in ci.classvars.values()]
            if len(args) != 1:
                self.throw("TypeError", "Enum() takes one value")
            if self.st.branch(z_or(*[self.eq(args[0], m, fr) for m in members])):
                return args[0]
            self.throw("ValueError", f"not a valid {ci.name}")
        if any(b.split(".")[-1] in BUILTIN_EXC_PARENT for b in libb):
            return self.st.alloc(HObj(ci, {"args": VTuple(list(args)), "__notes__": None}))
        obj = self.st.alloc(HObj(ci, {}))
        init = self.find_method(ci, "__init__")
        if init is not None:
            self.call_function(VFunc(init, obj), args, kwargs, fr)
        elif ci.is_dataclass:
            self.dataclass_init(ci, obj, args, kwargs, fr)
        elif args or kwargs:
            self.throw("TypeError", f"{ci.name}() takes no arguments")
        return obj

    def dataclass_init(self, ci, obj, args, kwargs, fr):
        fields = []
        for c in reversed(self.world.mro(ci)):
            if c.is_dataclass:
                fields.extend(c.dataclass_fields)
        kwargs = dict(kwargs)
        cell = self.st.cell(obj)
        for i, (name, default) in enumerate(fields):
            if i < len(args):
                if name in kwargs:
                    self.throw("TypeError", f"multiple values for {name}")
                cell.fields[name] = args[i]
            elif name in kwargs:
                cell.fields[name] = kwargs.pop(name)
            elif default is not None:
                cell.fields[name] = self.ev(default, Frame(None, ci.module, cls=ci))
            else:
                self.throw("TypeError", f"missing argument {name}")
        if len(args) > len(fields) or kwargs:
            self.throw("TypeError", "unexpected arguments")
        post = self.find_method(ci, "__post_init__")
        if post is not None:
            self.call_function(VFunc(post, obj), [], {}, fr)

    def call_function(self, f: VFunc, args, kwargs, fr):
        fi = f.fi
        if f.self_val is not None:
            args = [f.self_val] + list(args)
        con = self.cfg.contracts.get(fi.qualname)
        if con is not None and not (self.root_fn is fi and self.depth == 0):
            return con.apply(self, args, kwargs, fr)
        if self.depth >= self.cfg.inline_depth:
            raise Unsupported(f"call depth exceeded at {fi.qualname}")
        if fi.module is not None and fi.module.relpath:
            self.inlined.add(fi.qualname)
            self.world.used_functions.setdefault(fi.qualname, fi)
        new = Frame(fi, fi.module, {}, parent=f.closure, cls=fi.cls)
        if fi.cls is not None and args and fi.kind in ("function", "getter", "setter"):
            new.self_val = args[0]
        self.bind(fi, new, args, kwargs, fr)
        memo = None
        if any(d.split("(")[0].split(".")[-1] in ("lru_cache", "cache") for d in fi.decorators):
            # functools.lru_cache / cache (library contract): a call whose arguments equal those of an earlier call returns
            # the SAME object as that call (no re-execution); eviction only ever causes a re-execution
            memo = self.st.ghost.setdefault("LRU", {}).setdefault(fi.qualname, [])
            key = [new.locals[a.arg] for a in fi.node.args.posonlyargs + fi.node.args.args + fi.node.args.kwonlyargs if a.arg in new.locals]
            for old_key, old_val in memo:
                if len(old_key) == len(key):
                    c = z_and(*[self.eq(a, b) for a, b in zip(old_key, key)])
                    if (c is True) or (not isinstance(c, bool) and self.st.branch(c)):
                        return old_val
        is_gen = any(isinstance(n, (ast.Yield, ast.YieldFrom)) for n in self.own_nodes(fi.node))
        self.depth += 1
        prev_unchecked = getattr(self, "unchecked_indexing", None)
        if any("njit" in d and "boundscheck=True" not in d for d in fi.decorators):
            # numba compiles subscripts without bounds checks: an out-of-range index is a memory-safety
            # obligation, not an IndexError
            self.unchecked_indexing = self.numba_index_obligation
        try:
            if is_gen:
                new.yielded = []
                try:
                    self.exec_block(fi.node.body, new)
                except _Return:
                    pass
                return self.st.alloc(HList(new.yielded))
            try:
                self.exec_block(fi.node.body, new)
            except _Return as r:
                if memo is not None:
                    memo.append((key, r.val))
                return r.val
            if memo is not None:
                memo.append((key, NONE))
            return NONE
        finally:
            self.depth -= 1
            self.unchecked_indexing = prev_unchecked

    @staticmethod
    def own_nodes(fn):
        """Nodes of a function body excluding nested function/class/lambda bodies."""
        stack = list(fn.body)
        while stack:
            n = stack.pop()
            yield n
            for c in ast.iter_child_nodes(n):
                if not isinstance(c, (ast.FunctionDef, ast.AsyncFunctionDef, ast.ClassDef, ast.Lambda)):
                    stack.append(c)

    def bind(self, fi, new: Frame, args, kwargs, fr):
        a = fi.node.args
        params = [p.arg for p in a.posonlyargs + a.args]
        defaults = [None] * (len(params) - len(a.defaults)) + list(a.defaults)
        kwargs = dict(kwargs)
        dfr = Frame(None, fi.module, cls=fi.cls, parent=new.parent)
        for i, p in enumerate(params):
            if i < len(args):
                if p in kwargs:
                    self.throw("TypeError", f"{fi.name}() got multiple values for argument {p!r}")
                new.locals[p] = args[i]
            elif p in kwargs:
                new.locals[p] = kwargs.pop(p)
            elif defaults[i] is not None:
                new.locals[p] = self.ev(defaults[i], dfr)
            else:
                self.throw("TypeError", f"{fi.name}() missing required argument {p!r}")
        if len(args) > len(params):
            if a.vararg:
                new.locals[a.vararg.arg] = VTuple(args[len(params):])
            else:
                self.throw("TypeError", f"{fi.name}() takes {len(params)} positional arguments but {len(args)} were given")
        elif a.vararg:
            new.locals[a.vararg.arg] = VTuple([])
        for p, d in zip(a.kwonlyargs, a.kw_defaults):
            if p.arg in kwargs:
                new.locals[p.arg] = kwargs.pop(p.arg)
            elif d is not None:
                new.locals[p.arg] = self.ev(d, dfr)
            else:
                self.throw("TypeError", f"{fi.name}() missing keyword-only argument {p.arg!r}")
        if kwargs:
            if a.kwarg:
                new.locals[a.kwarg.arg] = self.st.alloc(HDict([(VStr(k), v) for k, v in kwargs.items()]))
            else:
                self.throw("TypeError", f"{fi.name}() got an unexpected keyword argument {next(iter(kwargs))!r}")
        elif a.kwarg:
            new.locals[a.kwarg.arg] = self.st.alloc(HDict([]))

    # =====================================================================================
    # statements
    # =====================================================================================
    def exec_block(self, stmts, fr):
        for s in stmts:
            self.exec(s, fr)

    def exec(self, s: ast.stmt, fr: Frame):
        m = getattr(self, "ex_" + type(s).__name__, None)
        if m is None:
            raise Unsupported(f"statement {type(s).__name__}")
        return m(s, fr)

    def ex_Expr(self, s, fr):
        if isinstance(s.value, ast.Constant):
            return
        if isinstance(s.value, ast.Yield):
            v = self.ev(s.value.value, fr) if s.value.value else NONE
            if "YIELD" in self.st.ghost:        # generator verified against a sequence contract (ghost YIELD : Seq)
                t = v.t if isinstance(v, VSym) else z_int(int_of(v))
                self.st.ghost["YIELD"] = z3.Concat(self.st.ghost["YIELD"], z3.Unit(t))
                return
            fr.yielded.append(v)
            return
        if isinstance(s.value, ast.YieldFrom):
            g = s.value.value
            if isinstance(g, ast.GeneratorExp) and len(g.generators) == 1 and not g.generators[0].is_async:
                # `yield from (elt for x in it if cond)` is, by definition, `for x in it: if cond: yield elt` — executed in that
                # form so that the loop contract of the explicit loop applies to it as well
                c = g.generators[0]
                body = [ast.Expr(value=ast.Yield(value=g.elt))]
                if c.ifs:
                    test = c.ifs[0] if len(c.ifs) == 1 else ast.BoolOp(op=ast.And(), values=list(c.ifs))
                    body = [ast.If(test=test, body=body, orelse=[])]
                loop = ast.For(target=c.target, iter=c.iter, body=body, orelse=[], lineno=s.lineno, col_offset=s.col_offset)
                ast.fix_missing_locations(loop)
                return self.ex_For(loop, fr)
            fr.yielded.extend(self.iterate(self.ev(s.value.value, fr), fr))
            return
        self.ev(s.value, fr)

    def ex_Pass(self, s, fr):
        pass

    def ex_Import(self, s, fr):
        for a in s.names:
            local = a.asname or a.name.split(".")[0]
            fr.locals[local] = VLib(self.lib.canon(a.name if a.asname else a.name.split(".")[0]))

    def ex_ImportFrom(self, s, fr):
        base = fr.module._abs(s.module, s.level) if fr.module else s.module
        for a in s.names:
            r = self.world.resolve_dotted(f"{base}.{a.name}")
            if r is None:
                raise Unsupported(f"import {base}.{a.name}")
            fr.locals[a.asname or a.name] = self.resolved_to_val(r, a.name)

    def ex_Global(self, s, fr):
        raise Unsupported("global statement")

    def ex_FunctionDef(self, s, fr):
        fi = FunctionInfo(fr.module, s, None)
        fr.locals[s.name] = VFunc(fi, closure=fr)

    def ex_Return(self, s, fr):
        raise _Return(self.ev(s.value, fr) if s.value else NONE)

    def ex_Break(self, s, fr):
        raise _Break()

    def ex_Continue(self, s, fr):
        raise _Continue()

    def ex_Assert(self, s, fr):
        if not self.st.branch(self.truth(self.ev(s.test, fr), fr)):
            self.throw("AssertionError", "")

    def ex_Delete(self, s, fr):
        for t in s.targets:
            if isinstance(t, ast.Subscript):
                obj, idx = self.ev(t.value, fr), self.ev(t.slice, fr)
                d = self.st.cell(obj) if isinstance(obj, VRef) else None
                if isinstance(d, HDict):
                    for j, (k, v) in enumerate(d.items):
                        if self.same_key(k, idx):
                            del d.items[j]
                            break
                    else:
                        raise PyExc(self.make_exc("KeyError", idx))
                    continue
            if isinstance(t, ast.Name):
                fr.locals.pop(t.id, None)
                continue
            raise Unsupported("del")

    def ex_Raise(self, s, fr):
        if s.exc is None:
            cur = getattr(fr, "current_exc", None)
            f = fr
            while cur is None and f is not None:
                cur = getattr(f, "current_exc", None)
                f = f.parent
            if cur is None:
                self.throw("RuntimeError", "No active exception to reraise")
            raise PyExc(cur)
        v = self.ev(s.exc, fr)
        if isinstance(v, VLib) and v.name.startswith("builtins."):
            v = self.make_exc(v.name.split(".")[-1])
        elif isinstance(v, VClass):
            v = self.instantiate(v.ci, [], {}, fr)
        if s.cause is not None and isinstance(v, VRef):
            self.st.cell(v).fields["__cause__"] = self.ev(s.cause, fr)
        raise PyExc(v)

    def ex_If(self, s, fr):
        ab = self.cfg.abstract_blocks.get((fr.fi.qualname if fr.fi else None, ast.unparse(s.test)))
        if ab is not None:
            # declared abstract block: its effect is summarised by the sidecar (frame + deny-list checked there)
            if self.st.branch(self.truth(self.ev(s.test, fr), fr)):
                ab(self, s, fr)
                # control transfers out of the abstracted block are NOT abstracted away: the (abstract) condition
                # guarding them is over-approximated by a nondeterministic choice, and the transfer is executed
                for kind, node in abstract_escapes(s.body):
                    if self.st.branch(z3.Bool(self.st.fresh_name(f"abstract_{kind}"))):
                        self.st.assumptions.add(f"abstract block {ast.unparse(s.test)!r}: condition of its `{kind}` statement over-approximated (nondeterministic)")
                        if kind == "return":
                            if node.value is not None and not isinstance(node.value, ast.Constant):
                                raise Unsupported("abstract block returns a computed value")
                            raise _Return(self.ev(node.value, fr) if node.value else NONE)
                        raise (_Break() if kind == "break" else _Continue())
            else:
                self.exec_block(s.orelse, fr)
            return
        if self.st.branch(self.truth(self.ev(s.test, fr), fr)):
            self.exec_block(s.body, fr)
        else:
            self.exec_block(s.orelse, fr)

    def ex_Assign(self, s, fr):
        v = self.ev(s.value, fr)
        for t in s.targets:
            self.assign(t, v, fr)

    def ex_AnnAssign(self, s, fr):
        if s.value is not None:
            self.assign(s.target, self.ev(s.value, fr), fr)

    def ex_AugAssign(self, s, fr):
        t = s.target
        if isinstance(t, ast.Name):
            cur = self.lookup(t.id, fr)
            fr.locals[t.id] = self.inplace(s.op, cur, self.ev(s.value, fr), fr)
        elif isinstance(t, ast.Attribute):
            obj = self.ev(t.value, fr)
            cur = self.getattr(obj, t.attr, fr)
            self.setattr(obj, t.attr, self.inplace(s.op, cur, self.ev(s.value, fr), fr), fr)
        elif isinstance(t, ast.Subscript):
            obj, idx = self.ev(t.value, fr), self.ev(t.slice, fr)
            if self.is_arr(obj) and self.is_arr(idx):
                from . import arrays
                return arrays.arr_mask_inplace(self, s.op, obj, idx, self.ev(s.value, fr))
            cur = self.getitem(obj, idx, fr)
            self.setitem(obj, idx, self.inplace(s.op, cur, self.ev(s.value, fr), fr), fr)
        else:
            raise Unsupported("augmented assignment target")

    def inplace(self, op, cur, val, fr):
        cur, val = self.resolve(cur), self.resolve(val)      # an optional value is decided (present / None) before it is used
        if self.is_arr(cur):
            return self.lib.arr_inplace(self, op, cur, val)
        if isinstance(cur, VRef):
            cell = self.st.cell(cur)
            if isinstance(cell, HObj) and not isinstance(cell.cls, str):
                name = {ast.Add: "__iadd__", ast.Sub: "__isub__", ast.Mult: "__imul__"}.get(type(op))
                m = self.find_method(cell.cls, name) if name else None
                if m is not None:
                    return self.call(VFunc(m, cur), [val], {}, fr)
            if isinstance(cell, HList) and isinstance(op, ast.Add):
                cell.items.extend(self.iterate(val, fr))
                return cur
        return self.binop(op, cur, val, fr)

    def assign(self, t, v, fr):
        if isinstance(t, ast.Name):
            fr.locals[t.id] = v
        elif isinstance(t, ast.Attribute):
            self.setattr(self.ev(t.value, fr), t.attr, v, fr)
        elif isinstance(t, ast.Subscript):
            self.setitem(self.ev(t.value, fr), self.ev(t.slice, fr), v, fr)
        elif isinstance(t, (ast.Tuple, ast.List)):
            if isinstance(v, VSeq):
                n = len(t.elts)
                if not self.st.branch(v.n == n):
                    self.throw("ValueError", "not enough / too many values to unpack")
                items = [v.get(z3.IntVal(i)) for i in range(n)]
            else:
                items = self.iterate(v, fr)
            star = [i for i, x in enumerate(t.elts) if isinstance(x, ast.Starred)]
            if star:
                i = star[0]
                after = len(t.elts) - i - 1
                if len(items) < len(t.elts) - 1:
                    self.throw("ValueError", "not enough values to unpack")
                for x, y in zip(t.elts[:i], items[:i]):
                    self.assign(x, y, fr)
                self.assign(t.elts[i].value, self.st.alloc(HList(items[i:len(items) - after])), fr)
                for x, y in zip(t.elts[i + 1:], items[len(items) - after:]):
                    self.assign(x, y, fr)
                return
            if len(items) != len(t.elts):
                self.throw("ValueError", "not enough / too many values to unpack")
            for x, y in zip(t.elts, items):
                self.assign(x, y, fr)
        else:
            raise Unsupported(f"assignment target {type(t).__name__}")

    # ---- try / with ---------------------------------------------------------------------
    def ex_Try(self, s, fr):
        try:
            try:
                self.exec_block(s.body, fr)
            except PyExc as pe:
                handled = False
                for h in s.handlers:
                    if h.type is None:
                        match = True
                    else:
                        match = self.st.branch(self.exc_matches(pe.val, self.ev(h.type, fr)))
                    if match:
                        handled = True
                        prev = getattr(fr, "current_exc", None)
                        fr.current_exc = pe.val
                        if h.name:
                            fr.locals[h.name] = pe.val
                        try:
                            self.exec_block(h.body, fr)
                        finally:
                            fr.current_exc = prev
                        break
                if not handled:
                    raise
            else:
                self.exec_block(s.orelse, fr)
        finally:
            if s.finalbody:
                self.exec_block(s.finalbody, fr)

    def ex_With(self, s, fr):
        if len(s.items) != 1:
            inner = ast.With(items=s.items[1:], body=s.body, lineno=s.lineno, col_offset=s.col_offset)
            s = ast.With(items=s.items[:1], body=[inner], lineno=s.lineno, col_offset=s.col_offset)
        item = s.items[0]
        ce = item.context_expr
        # generator-based context manager of the repository: substitute BODY for the single `yield`
        if isinstance(ce, ast.Call):
            f = self.ev(ce.func, fr)
            if isinstance(f, VFunc) and f.fi.has_decorator("contextmanager") and f.fi.qualname not in self.cfg.contracts:
                args = [self.ev(a, fr) for a in ce.args]
                kwargs = {k.arg: self.ev(k.value, fr) for k in ce.keywords}
                return self.with_generator(f, args, kwargs, item, s.body, fr)
            if isinstance(f, VFunc) and f.fi.qualname in self.cfg.contracts and hasattr(self.cfg.contracts[f.fi.qualname], "with_apply"):
                args = [self.ev(a, fr) for a in ce.args]
                kwargs = {k.arg: self.ev(k.value, fr) for k in ce.keywords}
                return self.cfg.contracts[f.fi.qualname].with_apply(self, args, kwargs, item, s.body, fr)
        cm = self.ev(ce, fr)
        return self.lib.with_lib(self, cm, item, s.body, fr)

    def with_generator(self, f: VFunc, args, kwargs, item, body, fr):
        fi = f.fi
        ys = [n for n in self.own_nodes(fi.node) if isinstance(n, ast.Yield)]
        if not ys:
            raise Unsupported("context manager without yield")
        new = Frame(fi, fi.module, {}, parent=f.closure, cls=fi.cls)
        self.bind(fi, new, args, kwargs, fr)
        new.with_body = (item, body, fr)
        self.inlined.add(fi.qualname)
        self.world.used_functions.setdefault(fi.qualname, fi)
        self.depth += 1
        try:
            try:
                self.exec_block(fi.node.body, new)
            except _Return:
                pass
        finally:
            self.depth -= 1
        if not getattr(new, "with_body_done", False):
            self.throw("RuntimeError", "generator didn't yield")

    def ex_Expr_yield_in_cm(self, s, fr):
        if getattr(fr, "with_body_done", False):
            raise Unsupported("context manager yields twice on one path")
        fr.with_body_done = True
        item, body, outer = fr.with_body
        v = self.ev(s.value.value, fr) if s.value.value else NONE
        if item.optional_vars is not None:
            self.assign(item.optional_vars, v, outer)
        self.exec_block(body, outer)

    # ---- loops --------------------------------------------------------------------------
    def ex_While(self, s, fr):
        ordinal = fr.loop_ordinal
        fr.loop_ordinal += 1
        spec = self.cfg.loops.get((fr.fi.qualname if fr.fi else None, ordinal))
        if spec is not None:
            return self.loop_with_invariant(s, fr, spec, None, ordinal)
        n = 0
        while True:
            if not self.st.branch(self.truth(self.ev(s.test, fr), fr)):
                self.exec_block(s.orelse, fr)
                return
            n += 1
            if n > self.cfg.max_unroll:
                raise Unsupported("while loop without invariant exceeds unrolling limit")
            try:
                self.exec_block(s.body, fr)
            except _Break:
                return
            except _Continue:
                continue

    def ex_For(self, s, fr):
        ordinal = fr.loop_ordinal
        fr.loop_ordinal += 1
        spec = self.cfg.loops.get((fr.fi.qualname if fr.fi else None, ordinal))
        it = self.ev(s.iter, fr)
        if spec is not None:
            return self.loop_with_invariant(s, fr, spec, it, ordinal)
        if isinstance(it, VSeq):
            raise Unsupported(f"loop over a symbolic-length sequence without invariant: {ast.unparse(s.target)} in {ast.unparse(s.iter)[:50]}")
        if isinstance(it, VRange) and it.step is None and not (is_conc(int_of(it.lo)) and is_conc(int_of(it.hi))):
            r = self.map_loop(s, fr, it)
            fr.loop_ordinal += sum(1 for n in ast.walk(ast.Module(body=s.body, type_ignores=[])) if isinstance(n, (ast.For, ast.While)))
            return r
        items = self.iterate(it, fr)
        saved = fr.loop_ordinal
        for x in items:
            fr.loop_ordinal = saved
            self.assign(s.target, x, fr)
            try:
                self.exec_block(s.body, fr)
            except _Break:
                break
            except _Continue:
                continue
        else:
            self.exec_block(s.orelse, fr)
            return
        # nested loops keep source-order ordinals: skip the ordinals of the body
        fr.loop_ordinal = saved + sum(1 for n in ast.walk(ast.Module(body=s.body, type_ignores=[])) if isinstance(n, (ast.For, ast.While)))

    # ---- independent-iteration ("map") loops over a symbolic range -----------------------------------------------
    def map_loop(self, s, fr, rng):
        """`for v in range(lo, hi): BODY` where iterations are independent (checked syntactically by analyse_map_body:
        every array written in BODY is written and read only at an index holding v at one fixed position, scalars are
        assigned before use in each iteration, no loop-carried scalar, no control transfer out of the loop, only pure
        library calls). Rule: each written array A becomes a fresh function F_A; for every registered generic index g of
        A's rank, F_A(g) = the value BODY stores when run with v = g[p] from the PRE-loop state if lo <= g[p] < hi, else
        the old A(g). Elsewhere F_A is unconstrained (over-approximation). No invariant has to be supplied."""
        st = self.st
        v = s.target.id if isinstance(s.target, ast.Name) else None
        if v is None or s.orelse:
            raise Unsupported("symbolic-range loop without invariant: not a simple `for v in range(..)`")
        written = analyse_map_body(s.body, v)
        lo, hi = z_int(int_of(rng.lo)), z_int(int_of(rng.hi))
        arrays = {}
        for name, pos in written.items():
            ref = fr.locals.get(name)
            if not (isinstance(ref, VRef) and isinstance(st.cell(ref), HArr)) or (st.cell(ref).tag and st.cell(ref).tag[0] == "view"):
                raise Unsupported(f"map loop writes {name}, which is not a plain array local")
            arrays[name] = (ref, pos)
        gens = st.ghost.get("generic", [])
        runs = []            # distinct generic values of the loop variable
        for name, (ref, pos) in arrays.items():
            rank = len(st.cell(ref).shape)
            gs = [g for g in gens if len(g) == rank]
            if not gs:
                raise Unsupported(f"map loop over {name}: no generic index of rank {rank} registered by the contract")
            for g in gs:
                c = z_int(g[pos])
                if not any(z3.eq(c, r) for r in runs):
                    runs.append(c)
        scalars = [n for n in self.assigned_names(s.body) if n not in arrays]
        pre_elem = {name: st.cell(ref)._elem for name, (ref, _) in arrays.items()}
        pre_locals = dict(fr.locals)
        saved_ord = fr.loop_ordinal
        results = {name: [] for name in arrays}
        for c in runs:
            for name, (ref, _) in arrays.items():
                st.cell(ref)._elem = pre_elem[name]
            fr.locals.clear()
            fr.locals.update(pre_locals)
            fr.loop_ordinal = saved_ord
            inr = z3.And(lo <= c, c < hi)
            if st.branch(inr):
                fr.locals[v] = VInt(c)
                try:
                    self.exec_block(s.body, fr)
                except (_Break, _Continue):
                    raise Unsupported("break / continue in a map loop")
            for name, (ref, pos) in arrays.items():
                results[name].append((c, st.cell(ref)._elem))
        fr.locals.clear()
        fr.locals.update(pre_locals)
        fr.loop_ordinal = saved_ord
        for name, (ref, pos) in arrays.items():
            cell = st.cell(ref)
            old = pre_elem[name]
            probe = old(tuple(z3.IntVal(0) for _ in cell.shape))
            sort = z3.RealSort() if isinstance(probe, VFloat) else z3.IntSort() if isinstance(probe, VInt) else z3.BoolSort()
            wrap = VFloat if isinstance(probe, VFloat) else VInt if isinstance(probe, VInt) else VBool
            F = z3.Function(st.fresh_name(f"{name}_after_loop"), *([z3.IntSort()] * len(cell.shape)), sort)
            for g in [g for g in gens if len(g) == len(cell.shape)]:
                c = z_int(g[pos])
                after = next(e for cc, e in results[name] if z3.eq(cc, c))
                val = after(tuple(g))
                t = to_real(val) if sort == z3.RealSort() else (z_bool(val.v) if sort == z3.BoolSort() else z_int(int_of(val)))
                st.assume(F(*[z_int(x) for x in g]) == t)
            cell.elem = lambda ix, F=F, wrap=wrap: wrap(F(*[z_int(i) for i in ix]))
        for n in scalars + [v]:
            if n in fr.locals:
                try:
                    fr.locals[n] = self.havoc_like(fr.locals[n], n)
                except Unsupported:
                    del fr.locals[n]
        st.assumptions.add("independent-iteration loops over a symbolic range are summarised pointwise at the contract's generic indices (engine.map_loop; side conditions checked syntactically)")

    def assigned_names(self, stmts):
        out = []
        for n in ast.walk(ast.Module(body=list(stmts), type_ignores=[])):
            if isinstance(n, ast.Name) and isinstance(n.ctx, ast.Store) and n.id not in out:
                out.append(n.id)
        return out

    def havoc_like(self, v, base):
        st = self.st
        if isinstance(v, VInt):
            return VInt(st.fresh_int(base))
        if isinstance(v, VBool):
            return VBool(st.fresh_bool(base))
        if isinstance(v, VFloat):
            return VFloat(st.fresh_fp(base) if (not is_conc(v.v) and is_fp(v.v)) or self.cfg.float_mode == "fp" else st.fresh_real(base))
        if isinstance(v, VStr):
            return VStr(st.fresh_str(base))
        if isinstance(v, VSym):
            return VSym(v.cls, st.fresh_int(base))
        if isinstance(v, VNone):
            return v
        if isinstance(v, VOpaque) and v.kind in ("xr",):
            return VOpaque(v.kind, st.fresh_int(base), {"label": base})
        raise Unsupported(f"cannot havoc loop-modified local {base} of kind {type(v).__name__}; give it in the loop spec")

    def loop_with_invariant(self, s, fr, spec: LoopSpec, it, ordinal):
        try:
            return self._loop_with_invariant(s, fr, spec, it, ordinal)
        except KeyError as e:
            # the contract names a local that this version of the function does not have (and no renamed counterpart
            # was found): the contract is not applicable -> undecided, never a violation
            raise Unsupported(f"loop contract refers to a local variable that does not exist here: {e}")

    def _loop_with_invariant(self, s, fr, spec: LoopSpec, it, ordinal):
        header = (ast.unparse(s.target) + " in " + ast.unparse(s.iter)) if isinstance(s, ast.For) else ast.unparse(s.test)
        if spec.header is not None and spec.header != header and not same_header_modulo_targets(spec.header, s):
            raise Unsupported(f"loop header changed: expected {spec.header!r}, found {header!r} (invariant not applicable)")
        st = self.st
        name = spec.name or f"{fr.fi.name}.loop{ordinal}"
        if isinstance(s, ast.For):
            seq = spec.seq(self, fr, it) if spec.seq else it
            if not isinstance(seq, VSeq):
                seq = self.lib.as_seq(self, seq, fr)
            if not isinstance(seq, VSeq):
                raise Unsupported("loop spec on a non-symbolic sequence")
        snap = spec.snapshot(self, fr) if spec.snapshot else None
        # 1. invariant holds on entry
        self.oblige_inv(f"{name}.inv_init", spec.invariant(self, fr, z3.IntVal(0)), header)
        # 2. arbitrary iteration or exit
        mode = st.choose([True, True])
        k = st.fresh_int("k")
        body_assigned = self.assigned_names(s.body + ([ast.Expr(value=s.target)] if False else []))
        declared0 = set(spec.modifies(self, fr)) if getattr(spec, "modifies", None) else set()
        for nm in body_assigned:
            if nm in fr.locals:
                cur = fr.locals[nm]
                if isinstance(cur, VRef) and cur.addr in declared0:
                    continue        # rebinding by an in-place operator; the cell itself is havocked by the spec
                fr.locals[nm] = self.havoc_like(cur, nm)
        if spec.havoc:
            spec.havoc(self, fr, k)
        if mode == 0:      # generic iteration k
            if isinstance(s, ast.For):
                st.assume(z3.And(k >= 0, k < seq.n))
            else:
                st.assume(k >= 0)
            self.assume_inv(spec.invariant(self, fr, k))
            if isinstance(s, ast.For):
                self.assign(s.target, seq.get(k), fr)
            else:
                if not st.branch(self.truth(self.ev(s.test, fr), fr)):
                    raise PathEnd("while-condition false in generic iteration")
            declared = set(spec.modifies(self, fr)) if getattr(spec, "modifies", None) else set()
            before = self.heap_fingerprint()
            try:
                self.exec_block(s.body, fr)
            except _Continue:
                pass
            except _Break:
                raise Unsupported("break inside a loop with invariant")
            if getattr(spec, "after_body", None):
                spec.after_body(self, fr, k)
            after = self.heap_fingerprint()
            for addr, fp in before.items():
                if addr not in declared and after.get(addr) != fp:
                    raise Unsupported(f"loop body modifies a heap object that the loop contract does not declare (addr {addr})")
            self.oblige_inv(f"{name}.inv_preserved", spec.invariant(self, fr, k + 1), header)
            if spec.frame_check:
                spec.frame_check(self, fr, snap, name)
            raise PathEnd("generic loop iteration done")
        # exit: all iterations done
        if isinstance(s, ast.For):
            st.assume(k == seq.n)
        else:
            st.assume(k >= 0)
        self.assume_inv(spec.invariant(self, fr, k))
        if isinstance(s, ast.While):
            st.assume(z_not(self.truth(self.ev(s.test, fr), fr)))
        self.exec_block(s.orelse, fr)

    def oblige_inv(self, name, inv, header):
        if isinstance(inv, dict):
            for label, f in inv.items():
                self.st.oblige(f"{name}[{label}]", f, {"loop": header}, assume_after=False)
            for f in inv.values():
                self.st.assume(f)
        else:
            self.st.oblige(name, inv, {"loop": header})

    def assume_inv(self, inv):
        for f in (inv.values() if isinstance(inv, dict) else [inv]):
            self.st.assume(f)

    def numba_index_obligation(self, ex, t, n, axis):
        self.st.oblige(f"numba.index_in_bounds[axis {axis}]", z3.And(t >= -n, t < n), {"kind": "memory-safety"}, assume_after=True)

    def heap_fingerprint(self):
        """Identity fingerprint of every heap cell (used to detect undeclared writes in loop bodies)."""
        out = {}
        for addr, cell in self.st.heap.items():
            if isinstance(cell, HArr):
                out[addr] = ("arr", id(cell._elem), tuple(map(str, cell.shape)), str(cell.dtype.v))
            elif isinstance(cell, HObj):
                out[addr] = ("obj", tuple((k, id(v)) for k, v in cell.fields.items()))
            elif isinstance(cell, HList):
                out[addr] = ("list", tuple(id(v) for v in cell.items))
            elif isinstance(cell, HDict):
                out[addr] = ("dict", tuple((id(k), id(v)) for k, v in cell.items))
        return out

    def ex_Match(self, s, fr):
        subj = self.ev(s.subject, fr)
        for case in s.cases:
            p = case.pattern
            if isinstance(p, ast.MatchValue):
                c = self.eq(subj, self.ev(p.value, fr), fr)
            elif isinstance(p, ast.MatchSingleton):
                c = self.identical(subj, self.ev(ast.Constant(value=p.value), fr))
            elif isinstance(p, ast.MatchAs) and p.pattern is None:
                if p.name:
                    fr.locals[p.name] = subj
                c = True
            elif isinstance(p, ast.MatchClass) and not p.patterns and not p.kwd_patterns:
                c = self.truth(self.lib.isinstance_(self, subj, self.ev(p.cls, fr)))
            elif isinstance(p, ast.MatchOr) and all(isinstance(q, ast.MatchValue) for q in p.patterns):
                c = z_or(*[self.eq(subj, self.ev(q.value, fr), fr) for q in p.patterns])
            else:
                raise Unsupported("match pattern")
            if case.guard is not None:
                if self.st.branch(c) and self.st.branch(self.truth(self.ev(case.guard, fr), fr)):
                    return self.exec_block(case.body, fr)
                continue
            if self.st.branch(c):
                return self.exec_block(case.body, fr)


# yield inside a generator-based context manager: dispatch on frame kind
_orig_ex_Expr = Ex.ex_Expr


def _ex_Expr(self, s, fr):
    if isinstance(s.value, ast.Yield) and hasattr(fr, "with_body"):
        return self.ex_Expr_yield_in_cm(s, fr)
    return _orig_ex_Expr(self, s, fr)


Ex.ex_Expr = _ex_Expr
