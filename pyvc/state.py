"""Path state, decision replay and path exploration for the pyvc symbolic executor.

Exploration is *replay based*: the interpreter runs one path at a time on a mutable State; every
symbolic branch is a numbered decision. A path is identified by its decision prefix; after a path
ends, every decision point that had other feasible alternatives spawns a new prefix and the
function is re-executed from the start along it. Execution is deterministic given the decisions
(fresh symbols are numbered per state), so the terms of a re-run coincide with the first run.
"""
from __future__ import annotations

import os, sys, time
import z3

from .values import HObj, HList, HDict, HArr, VRef


class Unsupported(Exception):
    """Construct outside the supported subset: the function is UNDECIDED, never skipped silently."""


class PathEnd(Exception):
    """The current path is infeasible or was deliberately ended (e.g. generic loop iteration)."""


class NeedBranch(Exception):
    """Raised in no-branch mode when an evaluation would need a path split."""


class PyExc(Exception):
    """A Python exception raised by the interpreted program; .val is the exception object value."""

    def __init__(self, val):
        super().__init__(repr(val))
        self.val = val


class Obligation:
    def __init__(self, name, pc, goal, info=None):
        self.name, self.pc, self.goal, self.info = name, list(pc), goal, dict(info or {})
        self.verdict = None       # discharged | refuted | undecided
        self.model = None
        self.solver = None
        self.seconds = 0.0


_SYM_CACHE: dict = {}


def symbols_of(t) -> frozenset:
    """names of the uninterpreted constants / functions (recursive definitions included) occurring in a term; cached per term"""
    key = t.get_id()
    hit = _SYM_CACHE.get(key)
    if hit is not None and hit[0].eq(t):
        return hit[1]
    out, stack, seen = set(), [t], set()
    while stack:
        x = stack.pop()
        i = x.get_id()
        if i in seen:
            continue
        seen.add(i)
        if z3.is_app(x):
            d = x.decl()
            if d.kind() in (z3.Z3_OP_UNINTERPRETED, z3.Z3_OP_RECURSIVE):
                out.add(d.name())
            stack.extend(x.children())
        elif z3.is_quantifier(x):
            stack.append(x.body())
    r = frozenset(out)
    if len(_SYM_CACHE) > 200000:
        _SYM_CACHE.clear()
    _SYM_CACHE[key] = (t, r)
    return r


class State:
    FEAS_TIMEOUT_MS = 3000

    def __init__(self, prefix=()):
        self.prefix = list(prefix)
        self.decisions: list[int] = []
        self.alts: list[list[int]] = []
        self.pc: list = []
        self.solver = z3.Solver()
        self.solver.set("timeout", self.FEAS_TIMEOUT_MS)
        self.heap: dict[int, object] = {}
        self.next_addr = 1
        self.ghost: dict[str, object] = {}
        self.symfields: dict[tuple, object] = {}
        self.counter = 0
        self.obligations: list[Obligation] = []
        self.assumptions: set[str] = set()
        self.events: list = []          # concrete-structure ghost log (boundary calls etc.)
        self.feas_checks = 0

    # ---- fresh symbols ------------------------------------------------------------------
    def fresh_name(self, base: str) -> str:
        self.counter += 1
        return f"{base}!{self.counter}"

    def fresh_int(self, base="i"):
        return z3.Int(self.fresh_name(base))

    def fresh_bool(self, base="b"):
        return z3.Bool(self.fresh_name(base))

    def fresh_real(self, base="r"):
        return z3.Real(self.fresh_name(base))

    def fresh_str(self, base="s"):
        return z3.String(self.fresh_name(base))

    def fresh_fp(self, base="f"):
        return z3.FP(self.fresh_name(base), z3.Float64())

    # ---- heap ---------------------------------------------------------------------------
    def alloc(self, cell) -> VRef:
        a = self.next_addr
        self.next_addr += 1
        self.heap[a] = cell
        return VRef(a)

    def cell(self, ref: VRef):
        return self.heap[ref.addr]

    # ---- path condition -----------------------------------------------------------------
    def assume(self, c):
        if isinstance(c, bool):
            if not c:
                raise PathEnd("assumed False")
            return
        c = z3.simplify(c)
        if z3.is_true(c):
            return
        self.pc.append(c)
        self.solver.add(c)

    def feasible(self, c) -> bool:
        """Is pc /\ c satisfiable?  Decided on the CONE OF INFLUENCE of c: the conjuncts of pc that (transitively) share an
        uninterpreted symbol with c. The remaining conjuncts share no symbol with the cone, so (pc being satisfiable by construction)
        sat(cone /\ c) <=> sat(pc /\ c); if pc itself were unsatisfiable the answer errs towards feasible. unsat(cone /\ c) always
        implies unsat(pc /\ c), so a branch is only ever pruned soundly. unknown counts as feasible (explores more, never less)."""
        if isinstance(c, bool):
            return c
        self.feas_checks += 1
        t0 = time.time()
        if os.environ.get("PYVC_FEAS_FULL"):
            self.solver.push()
            self.solver.add(c)
            r = self.solver.check()
            self.solver.pop()
        else:
            cone = symbols_of(c)
            if not cone:
                r = z3.unsat if z3.is_false(z3.simplify(c)) else z3.sat
                return r != z3.unsat
            rest = [(symbols_of(x), x) for x in self.pc if isinstance(x, z3.ExprRef)]
            chosen = []
            grew = True
            while grew and rest:
                grew = False
                keep = []
                for sy, x in rest:
                    if sy & cone:
                        chosen.append(x)
                        if not sy <= cone:
                            cone = cone | sy
                        grew = True
                    else:
                        keep.append((sy, x))
                rest = keep
            if not chosen and z3.is_app(c) and (z3.is_const(c) or (z3.is_not(c) and z3.is_const(c.arg(0)))):
                return True                 # a fresh propositional symbol (or its negation) constrains nothing already assumed
            sv = z3.Solver()
            sv.set("timeout", self.FEAS_TIMEOUT_MS)
            sv.add(*chosen)
            sv.add(c)
            r = sv.check()
        if os.environ.get("PYVC_TRACE_FEAS") and time.time() - t0 > 1.0:
            print(f"[feas] {time.time() - t0:.1f}s {r} pc={len(self.pc)} cond={str(c)[:300]}", file=sys.stderr)
        return r != z3.unsat           # unknown counts as feasible (explores more, never less)

    def choose(self, conds) -> int:
        """Decision among alternatives guarded by `conds`; assumes the chosen guard."""
        if getattr(self, "no_branch", 0):
            raise NeedBranch()
        i = len(self.decisions)
        if i < len(self.prefix):
            c = self.prefix[i]
            self.decisions.append(c)
            self.alts.append([])
            self.assume(conds[c])
            return c
        feas = [k for k, c in enumerate(conds) if self.feasible(c)]
        if not feas:
            raise PathEnd("infeasible")
        if getattr(self, "closed", False) and len(feas) > 1:
            # the exploration of this path is over: a decision taken now would silently drop the other alternatives
            raise Unsupported("a branch with several feasible outcomes after the path was closed (evaluate it inside the explored call)")
        self.decisions.append(feas[0])
        self.alts.append(feas[1:])
        self.assume(conds[feas[0]])
        return feas[0]

    def branch(self, cond) -> bool:
        if isinstance(cond, bool):
            return cond
        c = z3.simplify(cond)
        if z3.is_true(c):
            return True
        if z3.is_false(c):
            return False
        return self.choose([c, z3.Not(c)]) == 0

    # ---- obligations --------------------------------------------------------------------
    def oblige(self, name: str, goal, info=None, assume_after=True):
        if isinstance(goal, bool):
            goal = z3.BoolVal(goal)
        self.obligations.append(Obligation(name, self.pc, goal, info))
        if assume_after:
            self.assume(goal)


class PathResult:
    def __init__(self, kind, value, state: State, error=None):
        self.kind, self.value, self.state, self.error = kind, value, state, error

    def __repr__(self):
        return f"<path {self.kind} {self.value} dec={self.state.decisions}>"


def explore(run, max_paths=4000):
    """run(state) -> (kind, value).  Returns list[PathResult] over all feasible decision paths."""
    results: list[PathResult] = []
    stack = [[]]
    while stack:
        prefix = stack.pop()
        st = State(prefix)
        try:
            kind, value = run(st)
            st.closed = True
            results.append(PathResult(kind, value, st))
        except PathEnd as e:
            results.append(PathResult("end", None, st, str(e)))
        for i in range(len(prefix), len(st.decisions)):
            for alt in st.alts[i]:
                stack.append(st.decisions[:i] + [alt])
        if len(results) + len(stack) > max_paths:
            raise Unsupported(f"path explosion (> {max_paths} paths)")
    return results
