#!/usr/bin/env python3
"""Run the contract-based check of one property:  python3-vt check.py C12 [--tier quick|thorough]

Exit codes: 0 every obligation discharged (refutations only if listed as known findings);
1 a refuted obligation that is not a known finding (prints VIOLATION property=<id> replay=<path>);
2 undecided obligations and no refutation; 3 checker crash / zero obligations.
"""
from __future__ import annotations

import argparse
import importlib
import json
import multiprocessing as mp
import os
import pathlib
import re
import subprocess
import sys
import time

HERE = pathlib.Path(__file__).resolve().parent
sys.path.insert(0, str(HERE))
VENV_PY = "/venv/bin/python"


def repo_root() -> str:
    return os.environ.get("PYVC_REPO", "/repo")


def _worker(job):
    prop, name, tier, root = job
    from pyvc import verify
    importlib.import_module(f"contracts.{prop}")
    func = dict(verify.UNITS[prop])[name]
    return verify.run_unit(prop, name, func, tier, root)


def load_known():
    known, fixed = [], []
    p = HERE / "known_findings.jsonl"
    if p.exists():
        for line in p.read_text().splitlines():
            line = line.strip()
            if not line or line.startswith("#"):
                continue
            if line.startswith("fixed:"):
                fixed.append(line)
                continue
            known.append(json.loads(line))
    return known, fixed


def match_known(known, prop, rec):
    for k in known:
        if k.get("property") != prop:
            continue
        if not re.fullmatch(k["obligation"], rec["name"]):
            continue
        cond = k.get("when")
        if cond:
            try:
                if not eval(cond, {"w": rec.get("witness", {}), "rec": rec}):
                    continue
            except Exception:
                continue
        return k
    return None


CROSSCHECK = {"C02": "calculate_steps", "C17": "calculate_steps", "C20": "image.py", "C16": "apply_simple_adc", "C14": "pixel_center_pos", "C05": "_get_short_dimension_names_new",
              "C15": "persistence.py|full_well|ipc_kernel|apply_qe", "C08": "eval_entry", "C11": "list_to_slice"}


def replay(prop, rec, idx):
    """Run the scenario of a refuted obligation on the real code under /venv/bin/python."""
    rdir = HERE / "replays" / prop
    rdir.mkdir(parents=True, exist_ok=True)
    safe = re.sub(r"[^A-Za-z0-9_.\[\]-]", "_", rec["name"])[:150]
    path = rdir / f"{safe}.json"
    doc = {"property": prop, "obligation": rec["name"], "function": rec.get("function"), "witness": rec.get("witness"),
           "model": rec.get("model"), "scenario": rec.get("scenario"), "detail": rec.get("detail"),
           "solver_output": rec.get("model") or rec.get("detail"), "repo": repo_root()}
    outcome = {"status": "no-scenario"}
    if rec.get("scenario"):
        path.write_text(json.dumps(doc, indent=1, default=str))
        try:
            r = subprocess.run([VENV_PY, "-c", "import runpy,sys; a=sys.argv; sys.argv=['run.py', a[1]]; runpy.run_path(a[2], run_name='__main__')",
                                str(path), str(HERE / "replay" / "run.py")], cwd=repo_root(), capture_output=True, text=True, timeout=int(os.environ.get("PYVC_REPLAY_TIMEOUT", "90")),
                               env={**os.environ, "PYTHONPATH": str(HERE / "replay"), "PYTHONDONTWRITEBYTECODE": "1"})
            last = [l for l in r.stdout.splitlines() if l.startswith("REPLAY ")]
            outcome = json.loads(last[-1][7:]) if last else {"status": "error", "stderr": r.stderr[-800:]}
        except Exception as e:  # pragma: no cover
            outcome = {"status": "error", "stderr": repr(e)}
    if not rec.get("scenario"):
        path.parent.mkdir(parents=True, exist_ok=True)
    doc["replay_outcome"] = outcome
    path.write_text(json.dumps(doc, indent=1, default=str))
    return path, outcome


def main():
    ap = argparse.ArgumentParser()
    ap.add_argument("prop")
    ap.add_argument("--tier", default=os.environ.get("VERIF_TIER", "quick"))
    ap.add_argument("--replay", default=None)
    ap.add_argument("--jobs", type=int, default=int(os.environ.get("PYVC_JOBS", "14")))
    ap.add_argument("--unit", default=None, help="run only units whose name matches this regex")
    ap.add_argument("--no-evidence", action="store_true")
    ap.add_argument("-v", action="store_true")
    a = ap.parse_args()
    prop = a.prop
    seed = int(os.environ.get("VERIF_SEED", "0"))
    tier = a.tier if a.tier in ("quick", "thorough") else "quick"
    if tier == "thorough":
        os.environ["PYVC_REPLAY_SELFTEST"] = "1"      # thorough tier: every native scenario of the property is also RUN on the tree (bounded)
    if a.replay:
        r = subprocess.run([VENV_PY, "-c", "import runpy,sys; a=sys.argv; sys.argv=['run.py', a[1]]; runpy.run_path(a[2], run_name='__main__')",
                            a.replay, str(HERE / "replay" / "run.py")], cwd=repo_root(),
                           env={**os.environ, "PYTHONPATH": str(HERE / "replay")})
        return r.returncode
    t0 = time.time()
    from pyvc import verify
    try:
        mod = importlib.import_module(f"contracts.{prop}")
    except Exception:
        import traceback
        traceback.print_exc()
        print(f"CHECKER-CRASH property={prop} cannot import contracts")
        return 3
    units = verify.UNITS.get(prop, [])
    if a.unit:
        units = [(n, f) for n, f in units if re.search(a.unit, n)]
    jobs = [(prop, n, tier, repo_root()) for n, _ in units]
    results = []
    if a.jobs <= 1 or len(jobs) <= 1:
        results = [_worker(j) for j in jobs]
    else:
        with mp.get_context("fork").Pool(min(a.jobs, len(jobs))) as pool:
            results = pool.map(_worker, jobs, chunksize=1)
    # thorough-tier extras (bounded audits etc.) are hooks of the contract module
    extra = {}
    crosscheck_failed = False
    if tier == "thorough" and prop in CROSSCHECK:
        # bounded audit of the ENCODING (never counted as proved): the functions of this property that take plain values are run
        # on random concrete inputs by the engine and by CPython; results must agree (tools/crosscheck.py)
        try:
            r = subprocess.run(["python3-vt", str(HERE / "tools" / "crosscheck.py"), "--n", "20", "--seed", str(seed), "--only", CROSSCHECK[prop], "--json"],
                               capture_output=True, text=True, timeout=1800, env={**os.environ, "PYVC_REPO": repo_root()})
            js = [l for l in r.stdout.splitlines() if l.startswith("JSON ")]
            info = json.loads(js[-1][5:]) if js else {"error": (r.stdout + r.stderr)[-400:]}
        except Exception as e:
            info = {"error": repr(e)}
        extra = {"bounded": [{"kind": "CPython cross-check of the encoding on random concrete inputs (bounded; not a proof)", "bound": "20 inputs per function", **info}]}
        if info.get("disagreements"):
            print(f"CHECKER-CRASH property={prop} engine and CPython disagree on concrete inputs: {info}")
            crosscheck_failed = True
    if hasattr(mod, "extras"):
        try:
            more = mod.extras(tier, seed, repo_root()) or {}
            extra = {**more, "bounded": list(extra.get("bounded", [])) + list(more.get("bounded", []))}
        except Exception as e:
            extra = {"extras_error": repr(e)}

    known, fixed = load_known()
    recs, functions, assumptions, lib_used, inlined, dropped = [], {}, set(), set(), set(), set()
    crashes = []
    solver_s = 0.0
    paths = 0
    for r in results:
        if r["crash"]:
            crashes.append((r["unit"], r["crash"]))
        for rec in r["results"]:
            rec["unit"] = r["unit"]
            recs.append(rec)
        for q, info in r["functions"].items():
            f = functions.setdefault(q, dict(info, paths=0, obligations=0))
            f["paths"] += info["paths"]
            f["obligations"] += info["obligations"]
            if info.get("role") == "under contract":
                f["role"] = "under contract"
        assumptions |= set(r["assumptions"])
        lib_used |= set(r["lib_used"])
        inlined |= set(r["inlined"])
        dropped |= set(r["dropped"])
        solver_s += r["solver_s"]
        paths += r["paths"]

    # obligations of units that fix the LENGTH of a collection the real code iterates over (a history of k calls, a list of n
    # files, a pipeline with two models, ...) are proved for that family only: labelled bounded, reported apart, never counted
    # among the obligations this run claims as proved for all inputs
    bounded_map = getattr(mod, "BOUNDED", {})
    for rec in recs:
        for pat, why in bounded_map.items():
            if re.search(pat, rec.get("unit", "") + " " + rec.get("name", "")):
                rec["bounded"] = why
                break
    scenario_runs, scenario_violations = [], []
    # BOUNDED AUDITS (module table AUDITS: name -> scenario): functions that are outside the contracts' reach (byte-level decoders of
    # numpy / astropy / PIL / pandas) are checked natively on a stated finite family of inputs in EVERY tier. An audit that fails is a
    # failing input of the real code (violation with its replay file); one that holds proves nothing beyond its family and is listed
    # under coverage.bounded, never among the discharged obligations.
    audit_runs = []
    only = a.unit
    for aname, afn in (getattr(mod, "AUDITS", {}) or {}).items():
        if only and not re.search(only, "audit." + aname):
            continue
        try:
            sc = afn({})
        except Exception:
            continue
        arec = {"name": f"{prop}.audit.{aname}", "function": sc.get("function", ""), "scenario": sc, "witness": {}, "detail": "bounded native audit: " + str(sc.get("expect", ""))}
        path, outcome = replay(prop, arec, 900 + len(audit_runs))
        st = outcome.get("status")
        audit_runs.append({"audit": aname, "status": st, "bound": sc.get("bound", sc.get("expect", ""))})
        if st == "violated":
            scenario_violations.append((arec, path, outcome))
        else:
            try:
                os.unlink(path)
            except OSError:
                pass
            if st != "held":
                print(f"AUDIT-ERROR property={prop} audit={aname} status={st} {str(outcome.get('stderr') or outcome.get('detail'))[-300:]}")
    if os.environ.get("PYVC_REPLAY_SELFTEST"):
        # every distinct native scenario attached to an obligation, built from an EMPTY witness, is run on the tree under test. On the
        # unchanged tree each must hold (tools/replay_selftest.py). In the thorough tier a scenario that FAILS on the tree is a failing
        # input of the real code: reported as a violation (bounded dynamic complement of the proofs; listed under coverage.bounded).
        known0, _ = load_known()
        seen_code = set()
        for i, rec in enumerate(recs):
            sc = rec.pop("selftest_scenario", None)
            if sc is None or sc["code"] in seen_code:
                continue
            seen_code.add(sc["code"])
            path, outcome = replay(prop, {"name": "scenario." + rec["name"], "function": rec.get("function"), "scenario": sc, "witness": {}}, i)
            st = outcome.get("status")
            print(f"SELFTEST property={prop} obligation={rec['name']} status={st} detail={str(outcome.get('detail') or outcome.get('stderr'))[:240]}")
            scenario_runs.append({"obligation": rec["name"], "status": st})
            is_known = match_known(known0, prop, dict(rec, verdict="refuted")) is not None or rec["verdict"] == "refuted"
            if st == "violated" and tier == "thorough" and not is_known:
                scenario_violations.append((rec, path, outcome))
            else:
                try:
                    os.unlink(path)
                except OSError:
                    pass
    refuted = [r for r in recs if r["verdict"] == "refuted"]
    undecided = [r for r in recs if r["verdict"] == "undecided"]
    discharged = [r for r in recs if r["verdict"] == "discharged"]
    violations, known_hits = [], []
    seen_known = set()
    replayed = {}
    standin_tried = {}
    for i, rec in enumerate(refuted):
        k = match_known(known, prop, rec)
        if k is not None:
            known_hits.append((k, rec))
            continue
        if rec["name"] in replayed:          # same obligation refuted on another path: one replay is enough
            continue
        if len(replayed) >= int(os.environ.get("PYVC_MAX_REPLAYS", "8")):
            rec = dict(rec, scenario=None)    # still reported, replay file carries the solver output
        path, outcome = replay(prop, rec, i)
        if outcome.get("status") != "violated" and not standin_tried.get(rec.get("unit")):
            # the solver's counterexample does not fail natively (or none was given): the unit's BOUNDED native scenarios (module STANDIN
            # table) are tried once per unit; one that fails on the tree under test is a failing input for the report
            standin_tried[rec.get("unit")] = True
            for pat, fn in getattr(mod, "STANDIN", {}).items():
                if not re.search(pat, f"{rec.get('unit')} {rec['name']}"):
                    continue
                try:
                    sc = fn({})
                except Exception:
                    continue
                if not isinstance(sc, dict) or not sc.get("code"):
                    continue
                srec = dict(rec, scenario=sc, detail=f"obligation {rec['name']} refuted; the solver's witness did not fail natively, bounded native scenario of the unit attached")
                p2, o2 = replay(prop, srec, 900 + i)
                if o2.get("status") == "violated":
                    path, outcome = p2, o2
                    break
                try:
                    os.unlink(p2)
                except OSError:
                    pass
        replayed[rec["name"]] = path
        rec["replay_file"] = str(path)
        rec["replay_outcome"] = outcome
        violations.append((rec, path, outcome))

    for k, rec in known_hits:
        key = k.get("id") or k["obligation"]
        if key in seen_known:
            continue
        seen_known.add(key)
        print(f"KNOWN-FINDING: property={prop} {k['what']}")
    exit_code = 0
    for rec, path, outcome in violations:
        st = outcome.get("status")
        if st == "violated":
            print(f"VIOLATION property={prop} replay={path}")
        else:
            print(f"VIOLATION property={prop} replay={path} no-failing-input-found")
        print(f"  obligation {rec['name']} refuted ({rec.get('function')}); witness={json.dumps(rec.get('witness'), default=str)[:300]}")
        if outcome.get("detail") or outcome.get("stderr"):
            print(f"  replay[{st}]: {str(outcome.get('detail') or outcome.get('stderr'))[-300:] if st == 'error' else str(outcome.get('detail'))[:300]}")
        exit_code = 1
    standins = []
    if not violations and undecided:
        # BOUNDED STAND-IN: the code of a unit left the contracts' reach (library call without contract, moved target, solver
        # budget). Its native replay scenarios (module STANDIN table, and the *_REPLAY scenarios the unit function refers to) are
        # run on the real code with their default inputs. A scenario that FAILS is a failing input of the real code: reported as
        # a violation. A scenario that passes proves nothing: the obligation stays undecided (exit 2).
        by_unit = {}
        for rec in undecided:
            by_unit.setdefault(rec.get("unit"), rec)
        ufuncs = dict(verify.UNITS.get(prop, []))
        for uname, rec in by_unit.items():
            und_names = [r["name"] for r in undecided if r.get("unit") == uname]          # every undecided obligation of the unit
            cands = [(pat, fn) for pat, fn in getattr(mod, "STANDIN", {}).items() if any(re.search(pat, f"{uname} {nm}") for nm in und_names)]
            # units shared from another property's module bring that module's stand-ins with them (matched on the obligation's own name)
            for k_ in range(1, 21):              # (units imported lazily by a worker process are not loaded in this process yet)
                try:
                    importlib.import_module(f"contracts.C{k_:02d}")
                except Exception:
                    pass
            for mname, m2 in list(sys.modules.items()):
                if mname.startswith("contracts.") and m2 is not mod:
                    for pat, fn in (getattr(m2, "STANDIN", {}) or {}).items():
                        if any(re.search(pat, nm.split(".", 1)[-1]) for nm in und_names) and all(fn is not c[1] for c in cands):
                            cands.append((pat, fn))
            f = ufuncs.get(uname)
            if f is not None:
                for nm in f.__code__.co_names:
                    g = getattr(mod, nm, None)
                    if g is None:
                        g = getattr(f, "__globals__", {}).get(nm)      # a unit shared from another property's module
                    if "REPLAY" in nm and callable(g) and all(g is not c[1] for c in cands):
                        cands.append((nm, g))
            for j, (tag, fn) in enumerate(cands[:6]):
                try:
                    sc = fn({})
                except Exception:
                    continue
                if not isinstance(sc, dict) or not sc.get("code"):
                    continue
                srec = {"name": f"{rec['name']}.standin[{re.sub(r'[^A-Za-z0-9_]', '_', tag)[:40]}]", "function": rec.get("function"), "scenario": sc,
                        "detail": f"bounded stand-in for undecided obligation {rec['name']} ({rec.get('reason')})", "witness": {}}
                path, outcome = replay(prop, srec, j)
                standins.append({"unit": uname, "scenario": tag, "status": outcome.get("status"), "replay": str(path)})
                if outcome.get("status") == "violated":
                    print(f"VIOLATION property={prop} replay={path}")
                    print(f"  obligation {rec['name']} is undecided ({str(rec.get('reason'))[:160]}); its bounded stand-in (native scenario {tag}) FAILS on the real code")
                    print(f"  replay[violated]: {str(outcome.get('detail'))[:300]}")
                    exit_code = 1
                    break
    if not violations and undecided and exit_code == 0:
        for rec in undecided[:20]:
            print(f"UNDECIDED property={prop} obligation={rec['name']} reason={rec.get('reason')}")
        exit_code = 2
    if crashes:
        for n, c in crashes:
            print(f"CHECKER-CRASH property={prop} unit={n}\n{c}")
        if not violations:
            exit_code = 3
    if not recs and not crashes:
        print(f"CHECKER-CRASH property={prop} zero obligations generated")
        exit_code = 3
    if crosscheck_failed and exit_code == 0:
        exit_code = 3
    for rec, path, outcome in scenario_violations:
        print(f"VIOLATION property={prop} replay={path}")
        print(f"  native scenario of obligation {rec['name']} FAILS on the tree under test (bounded native run): {str(outcome.get('detail'))[:300]}")
        exit_code = 1
    if isinstance(extra, dict) and extra.get("violations"):
        for v in extra["violations"]:
            print(f"VIOLATION property={prop} replay={v['replay']}" + ("" if v.get("confirmed", True) else " no-failing-input-found"))
            exit_code = 1

    wall = time.time() - t0
    n_ob = len(recs)
    # a proof-level evidence file must have discharged == obligations; refutations that are listed known
    # findings are reported separately and keep the level at "other" for this run
    n_known = len(known_hits)
    # obligations refuted by a listed known finding are reported apart (refuted_known_findings) and not counted
    # among the obligations this run claims as proved
    bnd = [r for r in recs if r.get("bounded")]
    n_bnd = len(bnd)
    n_bnd_known = sum(1 for k, r in known_hits if r.get("bounded"))
    unb_discharged = [r for r in discharged if not r.get("bounded")]
    n_unb = n_ob - n_bnd - (n_known - n_bnd_known)
    all_proved = (len(discharged) == n_ob - n_known and n_unb > 0)
    by_unit = {}
    for r in bnd:
        d = by_unit.setdefault(r["unit"], {"bound": r["bounded"], "obligations": 0, "discharged": 0})
        d["obligations"] += 1
        d["discharged"] += r["verdict"] == "discharged"
    samples = []
    for r in recs[:2] + refuted[:2] + undecided[:1]:
        samples.append({k: r.get(k) for k in ("name", "function", "verdict", "solver", "seconds", "smt2", "witness", "detail") if r.get(k) is not None})
    by_solver = {}
    for r in discharged:
        by_solver[r["solver"] or "?"] = by_solver.get(r["solver"] or "?", 0) + 1
    second = {}
    for r in recs:
        if r.get("second"):
            second[r["second"]] = second.get(r["second"], 0) + 1
    if not second:
        second = {"note": "quick tier: no re-check; the thorough tier re-checks every discharged obligation with cvc5 1.0.3 / z3 4.8.12"}
    trusted = sorted({f"library contract: {n}" for n in lib_used} | {f"dropped (assumed effect-free): {n}" for n in dropped}
                     | set(getattr(mod, "TRUSTED", [])) | {"pyvc VC generator (encoding of Python semantics, DESIGN.md 2.3)", "z3 5.1.0 / cvc5 1.0.3"})
    ev = {
        "property_id": prop, "tier": tier, "seed": seed,
        "level": (getattr(mod, "LEVEL", None) or "proof") if all_proved else "other",
        "coverage": {
            "obligations": n_unb, "discharged": len(unb_discharged), "refuted": len(refuted) - n_known, "undecided": len(undecided),
            "bounded_obligations": {"count": n_bnd, "discharged": sum(1 for r in bnd if r["verdict"] == "discharged"), "by_unit": by_unit,
                                    "note": "proved for the stated family only (symbolic contents, fixed collection lengths); not included in obligations / discharged"},
            "refuted_known_findings": n_known, "obligations_generated_total": n_ob,
            "checker_cmd": f"python3-vt check.py {prop} --tier {tier}",
            "trusted_base": trusted,
            "discharged_by_backend": by_solver,
            "second_backend_recheck": second,
            "solver_seconds": round(solver_s, 2),
            "paths_explored": paths,
            "functions": [{"qualname": q, **{k: v for k, v in info.items()}} for q, info in sorted(functions.items())],
            "functions_under_contract": sorted(q for q, i in functions.items() if i.get("role") == "under contract"),
            "functions_inlined": sorted(inlined),
            "obligation_names": sorted({re.sub(r":(none|bool|int|float|str)\]", "]", r["name"]) for r in recs})[:400],
            "samples": samples,
            "explanation": ("Every obligation is generated on this run from the source text currently in " + repo_root() +
                            " (functions located by qualified name, sha256 recorded) and discharged by an SMT solver; "
                            "refuted obligations are replayed on the real code under /venv/bin/python. "
                            + (getattr(mod, "EXPLANATION", "") or "")),
            "known_findings_matched": [k["what"] for k, _ in known_hits],
            "bounded": (extra.get("bounded", []) if isinstance(extra, dict) else []) +
                       ([{"kind": "native stand-in scenarios run for undecided obligations (bounded; a passing scenario proves nothing)", "runs": standins}] if standins else []) +
                       ([{"kind": "native scenarios of the obligations run on the tree with default inputs (bounded; a passing scenario proves nothing)", "bound": "one run per distinct scenario",
                          "runs": len(scenario_runs), "held": sum(1 for x in scenario_runs if x["status"] == "held"),
                          "not_held": [x for x in scenario_runs if x["status"] != "held"][:20]}] if scenario_runs else []) +
                       ([{"kind": "bounded native audits of functions outside the contracts' reach (run in every tier; a passing audit proves nothing beyond its family)", "runs": audit_runs}] if audit_runs else []),
            "repo": repo_root(),
        },
        "assumptions": sorted(assumptions | set(getattr(mod, "ASSUMPTIONS", []))),
        "wall_s": round(wall, 2),
        "violations": len(violations) + sum(1 for x in standins if x["status"] == "violated") + len(scenario_violations),
    }
    if not a.no_evidence and not a.unit:
        (HERE / "evidence").mkdir(exist_ok=True)
        (HERE / "evidence" / f"{prop}.json").write_text(json.dumps(ev, indent=1, default=str))
    print(f"[{prop}] tier={tier} obligations={n_ob} discharged={len(discharged)} refuted={len(refuted)} "
          f"(known {len(known_hits)}) undecided={len(undecided)} units={len(units)} paths={paths} solver={solver_s:.1f}s wall={wall:.1f}s exit={exit_code}")
    slow = sorted(recs, key=lambda r: -r.get("seconds", 0))[:3]
    print("  slowest: " + "; ".join(f"{r['name']} {r['seconds']}s {r['verdict']}" for r in slow))
    if a.v:
        for r in recs:
            if r["verdict"] != "discharged":
                print("  ", r["verdict"], r["name"], r.get("witness"), r.get("reason"))
    return exit_code


if __name__ == "__main__":
    sys.exit(main())
